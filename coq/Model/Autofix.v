(* Model of v23/autofix.go (and the pieces of line.go, logging.go, plist.go,
   pkglint.go it needs), one definition per Go function, no proofs.

   Go                                   here
   ------------------------------------ -----------------------------------
   LoggerOpts{Autofix,ShowAutofix,Only} opts
   Logger.IsAutofix                     is_autofix
   Logger.shallBeLogged                 shall_be_logged
   RawLine.orignl                       an element of l_raw
   Location.Lineno(rawIndex)            lineno_of
   Line{Location,Text,raw,fix}          line
   Autofix{above,texts,below,modified}  fixst (f_above f_texts f_below f_modified)
   autofixShortTerm{actions,level,      f_actions f_level f_diag
                    diagFormat}
   NewAutofix / Line.Autofix            new_autofix / autofix
   setDiag (Errorf/Warnf/Notef/Silent)  set_diag
   skip / assertRealLine                skip / real_line
   strings.Count / replaceOnce          count / replace_once
   ReplaceAfter (Replace = prefix "")   replace_after
   ReplaceAt                            replace_at
   InsertAbove / InsertBelow / Delete   insert_above / insert_below / delete
   Custom(func(){ Describef(i, msg) })  custom
   Describef                            describe
   Apply                                apply
   SaveAutofixChanges                   save (fault-free), save_env / save_file (with faults)
   plistLineSorter (new.., Sort)        plist_sort
   Pkglint.checkExecutable              check_executable

   Every assert / index / slice panic of the Go code is the result [Panic].
   What Apply prints is modelled as the list of AUTOFIX lines (line number,
   action); diagnostics, explanations and source excerpts are not part of
   this model (C04/C06/C08). *)
From PV Require Import Lib.Bytes.
Open Scope Z_scope.

Inductive result (A : Type) := Ok (a : A) | Panic.
Arguments Ok {A} a.
Arguments Panic {A}.

Definition bind {A B} (r : result A) (f : A -> result B) : result B :=
  match r with Ok a => f a | Panic => Panic end.
Notation "'do' x <- r ; k" := (bind r (fun x => k)) (at level 200, x pattern, r at level 100, k at level 200).

Record opts := Opts { o_autofix : bool; o_show : bool; o_only : list str }.

Definition is_autofix (o : opts) : bool := o_autofix o || o_show o.

(* strings.Contains *)
Fixpoint contains (s sub : str) : bool :=
  has_prefix sub s || match s with [] => false | _ :: s' => contains s' sub end.

Definition shall_be_logged (o : opts) (format : str) : bool :=
  match o_only o with
  | [] => true
  | only => existsb (contains format) only
  end.

(* "Sorting the whole file." / "Clearing executable bits" / "SilentAutofixFormat" /
   "%q should be sorted before %q." *)
Definition silent_format : str :=
  [83;105;108;101;110;116;65;117;116;111;102;105;120;70;111;114;109;97;116]%N.
Definition sorted_before_format : str :=
  [37;113;32;115;104;111;117;108;100;32;98;101;32;115;111;114;116;101;100;32;98;101;102;111;114;101;32;37;113;46]%N.
Definition not_executable_format : str :=
  [83;104;111;117;108;100;32;110;111;116;32;98;101;32;101;120;101;99;117;116;97;98;108;101;46]%N.

(* what Describef records; the two custom descriptions are the only ones in the code *)
Inductive descr :=
| DRepl (from to : str)   (* Replacing %q with %q. *)
| DAbove (t : str)        (* Inserting a line %q above this line. *)
| DBelow (t : str)        (* Inserting a line %q below this line. *)
| DDelete                 (* Deleting this line. *)
| DSort                   (* Sorting the whole file. *)
| DChmod.                 (* Clearing executable bits *)

Record fixst := Fix {
  f_above : list str;
  f_texts : list str;
  f_below : list str;
  f_modified : bool;
  f_actions : list (descr * Z);   (* autofixShortTerm.actions *)
  f_level : bool;                 (* level != nil *)
  f_diag : str                    (* diagFormat, "" = not set *)
}.

Record line := Line {
  l_file : str;
  l_lineno : Z;          (* 0 = whole file, -1 = EOF, real lines start at 1 *)
  l_raw : list str;      (* orignl of every raw line *)
  l_text : str;          (* Line.Text *)
  l_fix : option fixst
}.

Definition lineno_of (l : line) (rawIndex : Z) : Z := l_lineno l + rawIndex.

Definition new_autofix (l : line) : fixst := Fix [] (l_raw l) [] false [] false [].

Definition with_fix (l : line) (f : fixst) : line :=
  Line (l_file l) (l_lineno l) (l_raw l) (l_text l) (Some f).

Definition with_text (l : line) (t : str) : line :=
  Line (l_file l) (l_lineno l) (l_raw l) t (l_fix l).

(* Line.Autofix *)
Definition autofix (l : line) : result (line * fixst) :=
  match l_fix l with
  | None => let f := new_autofix l in Ok (with_fix l f, f)
  | Some f => match f_diag f with [] => Ok (l, f) | _ => Panic end
  end.

(* every operation below works on a line whose l_fix is Some; [the_fix] is the Go pointer fix.line.fix *)
Definition the_fix (l : line) : result fixst :=
  match l_fix l with Some f => Ok f | None => Panic end.

Definition set_diag (format : str) (l : line) : result line :=
  do f <- the_fix l;
  if f_level f then Panic
  else match f_diag f with
       | [] => Ok (with_fix l (Fix (f_above f) (f_texts f) (f_below f) (f_modified f) (f_actions f) true format))
       | _ => Panic
       end.

Definition skip (o : opts) (f : fixst) : result bool :=
  match f_diag f with
  | [] => Panic
  | d => Ok (negb (shall_be_logged o d))
  end.

Definition real_line (l : line) : result unit :=
  if 1 <=? l_lineno l then Ok tt else Panic.

Definition describe (rawIndex : Z) (d : descr) (l : line) (f : fixst) : fixst :=
  Fix (f_above f) (f_texts f) (f_below f) (f_modified f)
      (f_actions f ++ [(d, lineno_of l rawIndex)]) (f_level f) (f_diag f).

(* ---------- string helpers with Go's semantics ---------- *)

(* strings.Index *)
Fixpoint index (s sub : str) : option nat :=
  if has_prefix sub s then Some O
  else match s with
       | [] => None
       | _ :: s' => option_map S (index s' sub)
       end.

(* strings.LastIndex *)
Fixpoint last_index (s sub : str) : option nat :=
  match s with
  | [] => if has_prefix sub [] then Some O else None
  | _ :: s' =>
    match last_index s' sub with
    | Some k => Some (S k)
    | None => if has_prefix sub s then Some O else None
    end
  end.

(* strings.Count for a non-empty substring: non-overlapping occurrences, left to right *)
Fixpoint count_aux (sub s : str) (skipn : nat) : nat :=
  match s with
  | [] => O
  | _ :: s' =>
    match skipn with
    | S k => count_aux sub s' k
    | O => if has_prefix sub s then S (count_aux sub s' (length sub - 1)) else count_aux sub s' O
    end
  end.

(* strings.Count(s, "") is utf8.RuneCountInString(s)+1; the model uses
   len(s)+1, which is 1 exactly when Go's value is 1 (s = ""), and the code only
   asks whether the sum over the raw lines is 1 *)
Definition count (s sub : str) : nat :=
  match sub with
  | [] => S (length s)
  | _ => count_aux sub s O
  end.

(* replaceOnce (util.go) *)
Definition replace_once (s from to : str) : bool * str :=
  match index s from, last_index s from with
  | Some i, Some j =>
    if Nat.eqb i j then (true, firstn i s ++ to ++ skipn (i + length from) s) else (false, s)
  | _, _ => (false, s)
  end.

Fixpoint set_nth {A} (n : nat) (x : A) (l : list A) : list A :=
  match l, n with
  | [], _ => []
  | _ :: l', O => x :: l'
  | y :: l', S n' => y :: set_nth n' x l'
  end.

Definition sum_counts (texts : list str) (sub : str) : nat :=
  fold_right (fun t acc => (count t sub + acc)%nat) O texts.

(* the loop `for rawIndex, text := range fix.texts` of ReplaceAfter:
   the first raw line on which replaceOnce succeeds *)
Fixpoint first_replace (texts : list str) (from to : str) (i : nat) : option (nat * str) :=
  match texts with
  | [] => None
  | t :: ts =>
    let (ok, r) := replace_once t from to in
    if ok then Some (i, r) else first_replace ts from to (S i)
  end.

(* ---------- the fix operations ---------- *)

Definition replace_after (o : opts) (prefix from to : str) (l : line) : result line :=
  do _ <- real_line l;
  do f <- the_fix l;
  do sk <- skip o f;
  if sk then Ok l
  else
    let pf := prefix ++ from in
    let pt := prefix ++ to in
    if negb (Nat.eqb (sum_counts (f_texts f) pf) 1) then Ok l
    else match first_replace (f_texts f) pf pt O with
         | None => Ok l
         | Some (rawIndex, replaced) =>
           let f1 := if is_autofix o
                     then Fix (f_above f) (set_nth rawIndex replaced (f_texts f)) (f_below f)
                              (f_modified f) (f_actions f) (f_level f) (f_diag f)
                     else f in
           let t1 := if is_autofix o then snd (replace_once (l_text l) pf pt) else l_text l in
           let l1 := with_text l t1 in
           Ok (with_fix l1 (describe (Z.of_nat rawIndex) (DRepl from to) l1 f1))
         end.

Definition replace_at (o : opts) (rawIndex textIndex : Z) (from to : str) (l : line) : result line :=
  if str_eqb from to then Panic else
  do _ <- real_line l;
  do f <- the_fix l;
  do sk <- skip o f;
  if sk then Ok l
  else
    if (rawIndex <? 0) || (Z.of_nat (length (f_texts f)) <=? rawIndex) then Panic else
    let ri := Z.to_nat rawIndex in
    let text := nth ri (f_texts f) [] in
    if negb (textIndex <? Z.of_nat (length text)) then Panic else
    if textIndex <? 0 then Panic else
    let ti := Z.to_nat textIndex in
    match strip_prefix from (skipn ti text) with
    | None => Panic
    | Some rest =>
      let replaced := firstn ti text ++ to ++ rest in
      let f1 := Fix (f_above f) (set_nth ri replaced (f_texts f)) (f_below f)
                    (f_modified f) (f_actions f) (f_level f) (f_diag f) in
      let l1 := with_text l (snd (replace_once (l_text l) from to)) in
      Ok (with_fix l1 (describe rawIndex (DRepl from to) l1 f1))
    end.

Definition nl : str := [10%N].

Definition is_nil {A} (l : list A) : bool := match l with [] => true | _ => false end.

(* hasSuffix(s, "\n") *)
Definition has_suffix_nl (s : str) : bool :=
  match rev s with c :: _ => (c =? 10)%N | [] => false end.

Definition insert_above (o : opts) (t : str) (l : line) : result line :=
  do _ <- real_line l;
  do f <- the_fix l;
  do sk <- skip o f;
  if sk then Ok l
  else
    let f1 := Fix (f_above f ++ [t ++ nl]) (f_texts f) (f_below f) (f_modified f) (f_actions f) (f_level f) (f_diag f) in
    Ok (with_fix l (describe 0 (DAbove t) l f1)).

Definition insert_below (o : opts) (t : str) (l : line) : result line :=
  do _ <- real_line l;
  do f <- the_fix l;
  do sk <- skip o f;
  if sk then Ok l
  else
    (* an unterminated last text must not be joined with the inserted line *)
    let texts1 :=
      match rev (f_texts f), f_below f with
      | last :: _, [] =>
        if negb (is_nil last) && negb (has_suffix_nl last)
        then set_nth (length (f_texts f) - 1) (last ++ nl) (f_texts f)
        else f_texts f
      | _, _ => f_texts f
      end in
    let f1 := Fix (f_above f) texts1 (f_below f ++ [t ++ nl]) (f_modified f) (f_actions f) (f_level f) (f_diag f) in
    Ok (with_fix l (describe (Z.of_nat (length (l_raw l)) - 1) (DBelow t) l f1)).

(* the loop of Delete over the indices of fix.texts *)
Fixpoint delete_actions (lineno : Z) (n : nat) (i : Z) : list (descr * Z) :=
  match n with
  | O => []
  | S n' => (DDelete, lineno + i) :: delete_actions lineno n' (i + 1)
  end.

Definition delete (o : opts) (l : line) : result line :=
  do _ <- real_line l;
  do f <- the_fix l;
  do sk <- skip o f;
  if sk then Ok l
  else
    let n := length (f_texts f) in
    Ok (with_fix l (Fix (f_above f) (repeat [] n) (f_below f) (f_modified f)
                        (f_actions f ++ delete_actions (l_lineno l) n 0) (f_level f) (f_diag f))).

(* Custom with a fixer that only calls Describef(rawIndex, msg); returns whether the fixer ran *)
Definition custom (o : opts) (rawIndex : Z) (d : descr) (l : line) : result (line * bool) :=
  do f <- the_fix l;
  do sk <- skip o f;
  if sk then Ok (l, false)
  else Ok (with_fix l (describe rawIndex d l f), true).

(* Apply: the new line and the AUTOFIX lines that are printed *)
Definition reset (f : fixst) : fixst :=
  Fix (f_above f) (f_texts f) (f_below f)
      (match f_actions f with [] => f_modified f | _ => true end) [] false [].

Definition apply (o : opts) (l : line) : result (line * list (descr * Z)) :=
  do f <- the_fix l;
  if negb (f_level f) then Panic
  else
    let relevant := shall_be_logged o (f_diag f) in
    let has_actions := match f_actions f with [] => false | _ => true end in
    if negb (relevant && (has_actions || negb (is_autofix o)))
    then Ok (with_fix l (reset f), [])
    else
      let printed := if is_autofix o then f_actions f else [] in
      Ok (with_fix l (reset f), printed).

(* ---------- SaveAutofixChanges ---------- *)

(* the file operations that have an effect (a system call that fails is not listed) *)
Inductive fsop :=
| OpCreateExcl (path : str)         (* os.OpenFile(O_WRONLY|O_CREATE|O_EXCL): a new, empty file *)
| OpWrite (path content : str)      (* WriteString + Close on the file just created *)
| OpChmodLike (path like : str)     (* Chmod(path, mode of [like]) *)
| OpRename (from to : str)
| OpRemove (path : str)             (* os.Remove *)
| OpChmod (path : str).             (* checkExecutable: clear the executable bits *)

Definition line_bytes (l : line) : list str :=
  match l_fix l with
  | Some f => f_above f ++ f_texts f ++ f_below f
  | None => l_raw l
  end.

Definition line_modified (l : line) : bool :=
  match l_fix l with Some f => f_modified f | None => false end.

Definition file_content (file : str) (ls : list line) : str :=
  concat (flat_map (fun l => if str_eqb (l_file l) file then line_bytes l else []) ls).

(* the files of the `changed` map, each once (Go iterates over a map: the order
   between different files is unspecified; the model uses first occurrence) *)
Fixpoint changed_files (ls : list line) (seen : list str) : list str :=
  match ls with
  | [] => []
  | l :: ls' =>
    if line_modified l && negb (existsb (str_eqb (l_file l)) seen)
    then l_file l :: changed_files ls' (l_file l :: seen)
    else changed_files ls' seen
  end.

Definition tmp_suffix : str := [46;112;107;103;108;105;110;116;46;116;109;112]%N. (* ".pkglint.tmp" *)

(* what can go wrong while one file is saved *)
Record env := Env {
  e_tmp_exists : str -> bool;     (* the exclusive create of this temporary file fails (EEXIST, ...) *)
  e_write_fails : str -> bool;    (* WriteString or Close fails *)
  e_stat_fails : str -> bool;     (* Stat of the original fails: its mode is unknown *)
  e_chmod_fails : str -> bool;
  e_rename_fails : str -> bool
}.

Definition no_faults : env :=
  Env (fun _ => false) (fun _ => false) (fun _ => false) (fun _ => false) (fun _ => false).

(* the body of the loop `for filename := range changed`: operations with an effect, and
   whether the file was saved *)
Definition save_file (e : env) (f content : str) : list fsop * bool :=
  let tmp := f ++ tmp_suffix in
  if e_tmp_exists e tmp then ([], false)             (* "Cannot write", nothing touched *)
  else
    let werr := e_write_fails e tmp in
    let written := if werr then [] else [OpWrite tmp content] in
    let do_chmod := negb werr && negb (e_stat_fails e f) in
    let cerr := do_chmod && e_chmod_fails e tmp in
    let chmodded := if do_chmod && negb cerr then [OpChmodLike tmp f] else [] in
    if werr || cerr then (OpCreateExcl tmp :: written ++ chmodded ++ [OpRemove tmp], false)
    else if e_rename_fails e tmp then (OpCreateExcl tmp :: written ++ chmodded ++ [OpRemove tmp], false)
    else (OpCreateExcl tmp :: written ++ chmodded ++ [OpRename tmp f], true).

Definition save_env (e : env) (o : opts) (ls : list line) : list fsop * bool :=
  if negb (o_autofix o) then ([], false)       (* fast lane: nothing is written *)
  else
    let results := map (fun f => save_file e f (file_content f ls)) (changed_files ls []) in
    (flat_map fst results, existsb snd results).

(* the fault-free sequence for one file *)
Definition save_seq (f content : str) : list fsop :=
  [OpCreateExcl (f ++ tmp_suffix); OpWrite (f ++ tmp_suffix) content;
   OpChmodLike (f ++ tmp_suffix) f; OpRename (f ++ tmp_suffix) f].

(* SaveAutofixChanges in a fault-free run (the run model below uses this one) *)
Definition save (o : opts) (ls : list line) : list fsop * bool :=
  if negb (o_autofix o) then ([], false)       (* fast lane: nothing is written *)
  else
    let files := changed_files ls [] in
    (flat_map (fun f => save_seq f (file_content f ls)) files,
     match files with [] => false | _ => true end).

(* one printed AUTOFIX line: Logf(AutofixLogLevel, line.Filename(), lineno, ..., description) *)
Record logline := Log { g_file : str; g_descr : descr; g_lineno : Z }.

Definition log_of (l : line) (printed : list (descr * Z)) : list logline :=
  map (fun p => Log (l_file l) (fst p) (snd p)) printed.

(* ---------- plistLineSorter ---------- *)

(* PlistChecker.newLines: strip leading ${PLIST.cond} prefixes off line.Text
   (the regular expression for one dollar-brace PLIST.name close-brace prefix,
   name = one or more of [A-Za-z0-9_.-], applied repeatedly) *)
Definition is_condchar (c : N) : bool :=
  is_alnum c || (c =? 95)%N || (c =? 45)%N || (c =? 46)%N. (* [\w-.] *)

Definition plist_prefix : str := [36;123;80;76;73;83;84;46]%N. (* "${PLIST." *)
Definition plist_dot : str := [80;76;73;83;84;46]%N.            (* "PLIST." *)

Fixpoint strip_conditions (fuel : nat) (text : str) : list str * str :=
  match fuel with
  | O => ([], text)
  | S fuel' =>
    match strip_prefix plist_prefix text with
    | None => ([], text)
    | Some r =>
      let (name, rest) := span is_condchar r in
      match name, rest with
      | _ :: _, 125%N :: rest' =>
        let (cs, t) := strip_conditions fuel' rest' in ((plist_dot ++ name) :: cs, t)
      | _, _ => ([], text)
      end
    end
  end.

(* PlistLine{conditions, text}; the Line itself is referred to by its index in the file *)
Record pkey := PKey { k_conds : list str; k_text : str }.

Definition new_pkey (text : str) : pkey :=
  let (cs, t) := strip_conditions (length text) text in PKey cs t.

Fixpoint str_ltb (a b : str) : bool :=
  match a, b with
  | _, [] => false
  | [], _ :: _ => true
  | x :: a', y :: b' => (x <? y)%N || ((x =? y)%N && str_ltb a' b')
  end.

(* stringSliceLess *)
Fixpoint slice_ltb (a b : list str) : bool :=
  match a, b with
  | _, [] => false
  | [], _ :: _ => true
  | x :: a', y :: b' => if str_eqb x y then slice_ltb a' b' else str_ltb x y
  end.

Definition pkey_less (a b : pkey) : bool :=
  str_ltb (k_text a) (k_text b) || (str_eqb (k_text a) (k_text b) && slice_ltb (k_conds a) (k_conds b)).

(* sort.SliceStable: the observable is the stably sorted order; [changed] (set in
   the comparator whenever a pair is seen out of order) is true iff that order
   differs from the original one, for the up to 20 lines that Go sorts by pure
   insertion (beyond that symMerge may set it for equal neighbours, which only
   causes an identical rewrite) *)
Fixpoint stable_insert (x : nat * pkey) (l : list (nat * pkey)) : list (nat * pkey) :=
  match l with
  | [] => [x]
  | y :: l' => if pkey_less (snd x) (snd y) then x :: l else y :: stable_insert x l'
  end.

Definition stable_sort (l : list (nat * pkey)) : list (nat * pkey) :=
  fold_left (fun acc x => stable_insert x acc) l [].

Definition at_comment : str := [64;99;111;109;109;101;110;116]%N. (* "@comment" *)
Definition at_sign : str := [64%N].
Definition dollar : str := [36%N].

Fixpoint span_list {A} (f : A -> bool) (l : list A) : list A * list A :=
  match l with
  | [] => ([], [])
  | x :: l' => if f x then let (a, b) := span_list f l' in (x :: a, b) else ([], l)
  end.

(* newPlistLineSorter: header = leading "@comment" lines, footer = the longest
   suffix of the rest whose lines start with "@", middle = what is between *)
Definition split_plist (l : list (nat * pkey)) : list (nat * pkey) * list (nat * pkey) * list (nat * pkey) :=
  let (header, rest) := span_list (fun p => has_prefix at_comment (k_text (snd p))) l in
  let (f, m) := span_list (fun p => has_prefix at_sign (k_text (snd p))) (rev rest) in
  (header, rev m, rev f).

Fixpoint nat_list_eqb (a b : list nat) : bool :=
  match a, b with
  | [], [] => true
  | x :: a', y :: b' => Nat.eqb x y && nat_list_eqb a' b'
  | _, _ => false
  end.

Definition dummy_line : line := Line [] 0 [] [] None.

(* plistLineSorter.Sort on the lines [store] (in file order) with the keys taken at load time.
   Result: the lines, the AUTOFIX lines printed, the file operations, s.autofixed *)
Definition plist_sort (o : opts) (keys : list pkey) (store : list line)
  : result (list line * list logline * list fsop * bool) :=
  let unchanged := Ok (store, [], [], false) in
  let '(header, middle, footer) := split_plist (combine (seq 0 (length keys)) keys) in
  if existsb (fun p => has_prefix at_sign (k_text (snd p)) || contains (k_text (snd p)) dollar
                       (* a line inserted above/below this entry would move with it *)
                       || match nth_error store (fst p) with
                          | Some l => match l_fix l with
                                      | Some f => negb (is_nil (f_above f ++ f_below f))
                                      | None => false
                                      end
                          | None => false
                          end) middle
     || match rev (firstn (length keys) store) with       (* plines[n-1].Line *)
        | lastl :: _ => match rev (l_raw lastl) with
                        | r :: _ => negb (has_suffix_nl r)
                        | [] => false
                        end
        | [] => false
        end
  then unchanged                                        (* s.unsortable *)
  else if negb (shall_be_logged o sorted_before_format) then unchanged
  else if negb (shall_be_logged o silent_format) then unchanged
  else
    match middle with
    | [] => unchanged
    | (first, _) :: _ =>
      let sorted := stable_sort middle in
      if nat_list_eqb (map fst sorted) (map fst middle) then unchanged   (* !s.changed *)
      else
        match nth_error store first with
        | None => Panic
        | Some l0 =>
          do (l1, _) <- autofix l0;
          do l2 <- set_diag silent_format l1;
          do f2 <- the_fix l2;
          let l3 := with_fix l2 (describe 0 DSort l2 f2) in   (* Describef called directly, no skip() *)
          do (l4, printed) <- apply o l3;
          let store' := set_nth first l4 store in
          let view := map (fun p => nth (fst p) store' dummy_line) (header ++ sorted ++ footer) in
          let (ops, autofixed) := save o view in
          Ok (store', log_of l4 printed, ops, autofixed)
        end
    end.

(* ---------- Pkglint.checkExecutable ---------- *)

Definition check_executable (o : opts) (file : str) (executable committed : bool)
  : result (list (descr * Z) * list fsop) :=
  if negb executable then Ok ([], [])
  else if committed then Ok ([], [])
  else
    let l0 := Line file 0 [] [] None in               (* NewLineWhole *)
    do (l1, _) <- autofix l0;
    do l2 <- set_diag not_executable_format l1;
    do (l3, ran) <- custom o 0 DChmod l2;
    let ops := if ran && o_autofix o then [OpChmod file] else [] in
    do (_, printed) <- apply o l3;
    Ok (printed, ops).

(* ---------- histories: what the checks do to the lines of loaded files ---------- *)

Inductive op :=
| OReplaceAfter (prefix from to : str)      (* Replace = OReplaceAfter [] *)
| OReplaceAt (rawIndex textIndex : Z) (from to : str)
| OInsertAbove (t : str)
| OInsertBelow (t : str)
| ODelete
| OCustom (rawIndex : Z).   (* Custom with a fixer that calls Describef(rawIndex, "Clearing executable bits") *)

Definition do_op (o : opts) (p : op) (l : line) : result line :=
  match p with
  | OReplaceAfter pre f t => replace_after o pre f t l
  | OReplaceAt ri ti f t => replace_at o ri ti f t l
  | OInsertAbove t => insert_above o t l
  | OInsertBelow t => insert_below o t l
  | ODelete => delete o l
  | OCustom ri => do (l', _) <- custom o ri DChmod l; Ok l'
  end.

Fixpoint do_ops (o : opts) (ps : list op) (l : line) : result line :=
  match ps with
  | [] => Ok l
  | p :: ps' => do l' <- do_op o p l; do_ops o ps' l'
  end.

(* one fix transaction: fix := line.Autofix(); fix.Notef(diag); ops...; fix.Apply() *)
Record txn := Txn { t_line : nat; t_diag : str; t_ops : list op }.

Definition do_txn (o : opts) (t : txn) (l0 : line) : result (line * list (descr * Z)) :=
  do (l1, _) <- autofix l0;
  do l2 <- set_diag (t_diag t) l1;
  do l3 <- do_ops o (t_ops t) l2;
  apply o l3.

Inductive event :=
| ETxn (t : txn)
| ESave                 (* SaveAutofixChanges(lines) on the lines in file order *)
| ESort                 (* plistLineSorter.Sort, then SaveAutofixChanges(plainLines) unless autofixed *)
| EChmod (file : str) (executable committed : bool).

Record state := State { s_store : list line; s_log : list logline; s_ops : list fsop }.

Definition step (o : opts) (keys : list pkey) (e : event) (s : state) : result state :=
  match e with
  | ETxn t =>
    match nth_error (s_store s) (t_line t) with
    | None => Ok s                                  (* no such line: not a Go behaviour, ignored *)
    | Some l0 =>
      do (l1, printed) <- do_txn o t l0;
      Ok (State (set_nth (t_line t) l1 (s_store s)) (s_log s ++ log_of l1 printed) (s_ops s))
    end
  | ESave =>
    let (ops, _) := save o (s_store s) in Ok (State (s_store s) (s_log s) (s_ops s ++ ops))
  | ESort =>
    do (store', printed, ops, autofixed) <- plist_sort o keys (s_store s);
    let ops2 := if autofixed then [] else fst (save o store') in
    Ok (State store' (s_log s ++ printed) (s_ops s ++ ops ++ ops2))
  | EChmod file x c =>
    do (printed, ops) <- check_executable o file x c;
    Ok (State (s_store s) (s_log s ++ map (fun p => Log file (fst p) (snd p)) printed) (s_ops s ++ ops))
  end.

Fixpoint run (o : opts) (keys : list pkey) (evs : list event) (s : state) : result state :=
  match evs with
  | [] => Ok s
  | e :: evs' => do s' <- step o keys e s; run o keys evs' s'
  end.

(* the lines of one file: [groups] = the raw lines of each logical line, [texts] = Line.Text *)
Fixpoint mk_lines (file : str) (lineno : Z) (groups : list (list str * str)) : list line :=
  match groups with
  | [] => []
  | (raws, text) :: gs =>
    Line file lineno raws text None :: mk_lines file (lineno + Z.of_nat (length raws)) gs
  end.

Definition init_state (file : str) (groups : list (list str * str)) : state :=
  State (mk_lines file 1 groups) [] [].

(* the content of [file] after the operations, given what it was before *)
Fixpoint disk_after (file : str) (before : str) (pending : option str) (ops : list fsop) : str :=
  match ops with
  | [] => before
  | OpWrite p c :: ops' =>
    if str_eqb p (file ++ tmp_suffix) then disk_after file before (Some c) ops'
    else if str_eqb p file then disk_after file c pending ops'
    else disk_after file before pending ops'
  | OpRename a b :: ops' =>
    if str_eqb a (file ++ tmp_suffix) && str_eqb b file
    then disk_after file (match pending with Some c => c | None => before end) None ops'
    else disk_after file before pending ops'
  | OpCreateExcl p :: ops' =>
    if str_eqb p (file ++ tmp_suffix) then disk_after file before (Some []) ops'
    else disk_after file before pending ops'
  | OpRemove p :: ops' =>
    if str_eqb p (file ++ tmp_suffix) then disk_after file before None ops'
    else disk_after file before pending ops'
  | OpChmodLike _ _ :: ops' => disk_after file before pending ops'
  | OpChmod _ :: ops' => disk_after file before pending ops'
  end.
