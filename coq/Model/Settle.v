(* Small executable models of fixers, for C16 (repeated --autofix converges).
   No proofs here.  Lines are byte strings without the newline; a file is a
   list of lines. *)
From PV Require Import Lib.Bytes.
Open Scope N_scope.

(* ---------- trailing whitespace: linechecker.go CheckTrailingWhitespace ----------
   text[:len(rtrimHspace(text))] : trailing spaces and tabs are removed *)
Fixpoint rtrim (s : str) : str :=
  match s with
  | [] => []
  | c :: r => match rtrim r with
              | [] => if is_hspace c then [] else [c]
              | r' => c :: r'
              end
  end.
Definition ends_clean (s : str) : bool := negb (is_hspace (last s 0)).
Definition trim_file (ls : list str) : list str := map rtrim ls.

(* ---------- CVS id and the empty line below it: lines.go CheckCvsID,
   lineslexer.go SkipEmptyOrNote, as used by distinfo.go parse() ---------- *)
Definition netbsd : str := [36;78;101;116;66;83;68].            (* $NetBSD *)
Definition cvsid_line (prefix : str) : str := prefix ++ netbsd ++ [36].
(* Line.IsCvsID: ^prefix\$NetBSD(:[^\$]+)?\$$ *)
Definition is_cvsid (prefix l : str) : bool :=
  match strip_prefix (prefix ++ netbsd) l with
  | None => false
  | Some rest =>
    match rest with
    | [36] => true
    | 58 :: body =>
      let (b, e) := span (fun c => negb (c =? 36)) body in
      negb (match b with [] => true | _ => false end) && str_eqb e [36]
    | _ => false
    end
  end.
(* one pass over the header of a file whose first line must be the CVS id,
   followed by an empty line (the inserted lines go above/below, see autofix.go) *)
Definition fix_header (prefix : str) (ls : list str) : list str :=
  match ls with
  | [] => []
  | l0 :: r =>
    if is_cvsid prefix l0 then
      match r with
      | [] => [l0; []]                       (* InsertBelow("") on the previous line *)
      | l1 :: _ => match l1 with
                   | [] => ls
                   | _ => l0 :: [] :: r      (* InsertAbove("") on the second line *)
                   end
      end
    else
      match l0 with
      | [] => cvsid_line prefix :: ls        (* InsertAbove(id); the empty line is there *)
      | _ => cvsid_line prefix :: [] :: ls   (* InsertAbove(id); InsertAbove("") *)
      end
  end.
Definition header_ok (prefix : str) (ls : list str) : bool :=
  match ls with
  | [] => true
  | l0 :: r => is_cvsid prefix l0 && match r with [] :: _ => true | _ => false end
  end.

(* ---------- PLIST sort (plist.go plistLineSorter), modelled as insertion
   sort of the lines by byte-wise lexicographic order ---------- *)
Fixpoint str_leb (a b : str) : bool :=
  match a, b with
  | [], _ => true
  | _ :: _, [] => false
  | x :: a', y :: b' => if x <? y then true else if y <? x then false else str_leb a' b'
  end.
Fixpoint insert_sorted (x : str) (l : list str) : list str :=
  match l with
  | [] => [x]
  | y :: r => if str_leb x y then x :: l else y :: insert_sorted x r
  end.
Fixpoint isort (l : list str) : list str :=
  match l with
  | [] => []
  | x :: r => insert_sorted x (isort r)
  end.
Fixpoint sortedb (l : list str) : bool :=
  match l with
  | [] => true
  | x :: r => match r with [] => true | y :: _ => str_leb x y && sortedb r end
  end.

(* ---------- distinfo hashes (distinfo.go): every recorded patch hash is
   replaced with the hash computed from the patch file ---------- *)
Definition distinfo_entry := (str * str)%type.                 (* file name, recorded hash *)
Definition fix_hashes (computed : str -> str) (es : list distinfo_entry) : list distinfo_entry :=
  map (fun e => (fst e, computed (fst e))) es.
Definition hashes_ok (computed : str -> str) (es : list distinfo_entry) : bool :=
  forallb (fun e => str_eqb (snd e) (computed (fst e))) es.

(* ---------- a text file with both fixers: one pass ---------- *)
Definition text_pass (prefix : str) (ls : list str) : list str := trim_file (fix_header prefix ls).
