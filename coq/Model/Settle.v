(* Small executable models of fixers, for C16 (repeated --autofix converges).
   No proofs here.  Lines are byte strings without the newline; a file is a
   list of lines. *)
From PV Require Import Lib.Bytes.
Open Scope N_scope.

(* ---------- trailing whitespace: linechecker.go CheckTrailingWhitespace ----------
   text[:len(rtrimHspace(text))] : trailing spaces and tabs are removed *)
Fixpoint rtrim (s : str) : str :=
  match s with
  | [] => []
  | c :: r => match rtrim r with
              | [] => if is_hspace c then [] else [c]
              | r' => c :: r'
              end
  end.
Definition ends_clean (s : str) : bool := negb (is_hspace (last s 0)).
(* /repo a0c5e27: `if hasSuffix(text[:trimmedLen], "\\") { return }` -- the blanks after a
   backslash stay (in a makefile their removal would join the line with the next one) *)
Definition trim_line (s : str) : str := if last (rtrim s) 0 =? 92 then s else rtrim s.
(* nothing left to do for CheckTrailingWhitespace *)
Definition line_settled (s : str) : bool := ends_clean s || (last (rtrim s) 0 =? 92).
Definition trim_file (ls : list str) : list str := map trim_line ls.

(* ---------- CVS id and the empty line below it: lines.go CheckCvsID,
   lineslexer.go SkipEmptyOrNote, as used by distinfo.go parse() ---------- *)
Definition netbsd : str := [36;78;101;116;66;83;68].            (* $NetBSD *)
Definition cvsid_line (prefix : str) : str := prefix ++ netbsd ++ [36].
(* Line.IsCvsID: ^prefix\$NetBSD(:[^\$]+)?\$$ *)
Definition is_cvsid (prefix l : str) : bool :=
  match strip_prefix (prefix ++ netbsd) l with
  | None => false
  | Some rest =>
    match rest with
    | [36] => true
    | 58 :: body =>
      let (b, e) := span (fun c => negb (c =? 36)) body in
      negb (match b with [] => true | _ => false end) && str_eqb e [36]
    | _ => false
    end
  end.
(* one pass over the header of a file whose first line must be the CVS id,
   followed by an empty line (the inserted lines go above/below, see autofix.go) *)
Definition fix_header (prefix : str) (ls : list str) : list str :=
  match ls with
  | [] => []
  | l0 :: r =>
    if is_cvsid prefix l0 then
      match r with
      | [] => [l0; []]                       (* InsertBelow("") on the previous line *)
      | l1 :: _ => match l1 with
                   | [] => ls
                   | _ => l0 :: [] :: r      (* InsertAbove("") on the second line *)
                   end
      end
    else
      match l0 with
      | [] => cvsid_line prefix :: ls        (* InsertAbove(id); the empty line is there *)
      | _ => cvsid_line prefix :: [] :: ls   (* InsertAbove(id); InsertAbove("") *)
      end
  end.
Definition header_ok (prefix : str) (ls : list str) : bool :=
  match ls with
  | [] => true
  | l0 :: r => is_cvsid prefix l0 && match r with [] :: _ => true | _ => false end
  end.

(* ---------- PLIST sort (plist.go plistLineSorter), modelled as insertion
   sort of the lines by byte-wise lexicographic order ---------- *)
Fixpoint str_leb (a b : str) : bool :=
  match a, b with
  | [], _ => true
  | _ :: _, [] => false
  | x :: a', y :: b' => if x <? y then true else if y <? x then false else str_leb a' b'
  end.
Fixpoint insert_sorted (x : str) (l : list str) : list str :=
  match l with
  | [] => [x]
  | y :: r => if str_leb x y then x :: l else y :: insert_sorted x r
  end.
Fixpoint isort (l : list str) : list str :=
  match l with
  | [] => []
  | x :: r => insert_sorted x (isort r)
  end.
Fixpoint sortedb (l : list str) : bool :=
  match l with
  | [] => true
  | x :: r => match r with [] => true | y :: _ => str_leb x y && sortedb r end
  end.

(* ---------- distinfo hashes (distinfo.go): every recorded patch hash is
   replaced with the hash computed from the patch file ---------- *)
Definition distinfo_entry := (str * str)%type.                 (* file name, recorded hash *)
Definition fix_hashes (computed : str -> str) (es : list distinfo_entry) : list distinfo_entry :=
  map (fun e => (fst e, computed (fst e))) es.
Definition hashes_ok (computed : str -> str) (es : list distinfo_entry) : bool :=
  forallb (fun e => str_eqb (snd e) (computed (fst e))) es.

(* ---------- a text file with both fixers: one pass ---------- *)
Definition text_pass (prefix : str) (ls : list str) : list str := trim_file (fix_header prefix ls).

(* ====================================================================== *)
(* Round 4: more fixers.                                                   *)
(* ====================================================================== *)

(* ---------- Lines.CheckCvsID alone (lines.go), with the prefix pattern and the
   suggested prefix of its call sites:
     IdPlain  distinfo.go, patches.go   CheckCvsID(0, ``, "")
     IdMk     mklines.go                CheckCvsID(0, `#[\t ]+`, "# ")
     IdPlist  plist.go                  CheckCvsID(0, `@comment `, "@comment ")
   Result None = the Go code panics (ls.Lines[0] on a file without lines). ---------- *)
Inductive idkind := IdPlain | IdMk | IdPlist.
Definition at_comment : str := [64;99;111;109;109;101;110;116;32].       (* "@comment " *)
(* the text behind the prefix pattern; [\t ]+ is greedy, '$' is no blank: one way to match *)
Definition id_strip (k : idkind) (l : str) : option str :=
  match k with
  | IdPlain => Some l
  | IdPlist => strip_prefix at_comment l
  | IdMk => match l with
            | 35 :: r => let (ws, rest) := span is_hspace r in
                         match ws with [] => None | _ :: _ => Some rest end
            | _ => None
            end
  end.
(* \$NetBSD(:[^\$]+)?\$$ *)
Definition id_tail_ok (rest : str) : bool :=
  match strip_prefix netbsd rest with
  | None => false
  | Some r =>
    match r with
    | [36] => true
    | 58 :: body =>
      let (b, e) := span (fun c => negb (c =? 36)) body in
      negb (match b with [] => true | _ => false end) && str_eqb e [36]
    | _ => false
    end
  end.
Definition is_cvsid_k (k : idkind) (l : str) : bool :=
  match id_strip k l with None => false | Some r => id_tail_ok r end.
Definition id_suggest (k : idkind) : str :=
  match k with IdPlain => [] | IdMk => [35;32] | IdPlist => at_comment end ++ netbsd ++ [36].
Definition check_cvsid (k : idkind) (ls : list str) : option (list str) :=
  match ls with
  | [] => None                                                   (* index out of range *)
  | l0 :: _ => Some (if is_cvsid_k k l0 then ls else id_suggest k :: ls)   (* InsertAbove *)
  end.

(* ---------- PLIST: CheckLinesPlist without a package (plist.go), as far as the
   file is changed: CheckCvsID, and per line (PlistChecker.checkLine):
     - the text behind the ${PLIST.cond} prefixes is empty      -> Delete
     - first path component ${PKGMANDIR}                        -> Replace("${PKGMANDIR}/", "man/")
       (ReplaceAfter: only if it occurs exactly once in the line; checkPath goes on with
        the OLD rel, so checkPathMan is not reached for this line in this pass)
     - first path component man: checkPathMan                   -> ReplaceAt(0, len-3, ".gz", "")
     - @unexec rmdir … / @unexec ${RMDIR} %D/… without "true"  -> Delete
   Not modelled (kept out of the corresponded domain): duplicate deletion, the sorter,
   the egg-info rewrite. ---------- *)
Definition is_word (c : N) : bool := is_alnum c || (c =? 95).
Definition is_cond_char (c : N) : bool := is_word c || (c =? 45) || (c =? 46).
Definition plist_cond_open : str := [36;123;80;76;73;83;84;46].           (* ${PLIST. *)
(* PlistChecker.newLines: for hasPrefix(text, "${PLIST.") { ^(?:\$\{(PLIST\.[\w-.]+)\})(.+)? } *)
Fixpoint strip_conds_fuel (fuel : nat) (l : str) : option str :=
  match fuel with
  | O => None
  | S f => match strip_prefix plist_cond_open l with
           | None => Some l
           | Some r => let (name, rest) := span is_cond_char r in
                       match name, rest with
                       | _ :: _, c :: rest' => if c =? 125 then strip_conds_fuel f rest' else Some l
                       | _, _ => Some l
                       end
           end
  end.
Definition strip_conds (l : str) : option str := strip_conds_fuel (S (length l)) l.

Definition plist_line_start (c : N) : bool := (c =? 36) || is_alnum c.      (* $0-9A-Za-z *)
Definition first_part (text : str) : str := fst (span (fun c => negb (c =? 47)) text).
Definition pkgmandir : str := [36;123;80;75;71;77;65;78;68;73;82;125].
Definition pkgmandir_slash : str := pkgmandir ++ [47].
Definition man_slash : str := [109;97;110;47].

(* strings.Count(s, pat) for a non-empty pat: non-overlapping, from the left *)
Fixpoint count_fuel (fuel : nat) (pat s : str) : N :=
  match fuel with
  | O => 0
  | S f => match strip_prefix pat s with
           | Some r => 1 + count_fuel f pat r
           | None => match s with [] => 0 | _ :: t => count_fuel f pat t end
           end
  end.
Definition count_pkgmandir (s : str) : N := count_fuel (S (length s)) pkgmandir_slash s.
(* replaceOnce: the first occurrence *)
Fixpoint replace_first (pat rep s : str) : str :=
  match strip_prefix pat s with
  | Some r => rep ++ r
  | None => match s with [] => [] | c :: t => c :: replace_first pat rep t end
  end.

(* (\.gz)? of ^(.*?)\.(\w+)(\.gz)?$ is non-empty iff base = P ++ "." ++ W ++ ".gz", W in \w+ *)
Definition gz_base (base : str) : bool :=
  match rev base with
  | 122 :: 103 :: 46 :: r' =>
    let (w, p) := span is_word r' in
    match w, p with
    | _ :: _, 46 :: _ => true
    | _, _ => false
    end
  | _ => false
  end.
(* ^man/(cat|man)(\w+)/(.+)?$ and then the base name *)
Definition gz_text (text : str) : bool :=
  match strip_prefix man_slash text with
  | None => false
  | Some t2 =>
    let after := match strip_prefix [99;97;116] t2 with
                 | Some t3 => Some t3
                 | None => strip_prefix [109;97;110] t2
                 end in
    match after with
    | None => false
    | Some t3 => let (sec, rest) := span is_word t3 in
                 match sec, rest with
                 | _ :: _, 47 :: base => gz_base base
                 | _, _ => false
                 end
    end
  end.
Definition ends_gz (s : str) : bool :=
  match rev s with 122 :: 103 :: 46 :: _ => true | _ => false end.
Definition drop_last3 (s : str) : str := firstn (length s - 3) s.

(* PlistLine.CheckDirective, as far as the file is changed: ^@([a-z-]+)[\t ]*(.+)?  with cmd = unexec and
   arg =~ ^(?:rmdir|\$\{RMDIR\} %D/)(.+)?  whose rest contains neither "true" nor "${TRUE}" -> Delete *)
Definition is_lower_dash (c : N) : bool := is_lower c || (c =? 45).
Fixpoint contains_sub (pat s : str) : bool :=
  match strip_prefix pat s with
  | Some _ => true
  | None => match s with [] => false | _ :: t => contains_sub pat t end
  end.
Definition unexec_rmdir (text : str) : bool :=
  match text with
  | c :: t =>
    if c =? 64 then
      let (cmd, rest) := span is_lower_dash t in
      if str_eqb cmd [117;110;101;120;101;99] then
        let arg := snd (span is_hspace rest) in
        let dir := match strip_prefix [114;109;100;105;114] arg with
                   | Some d => Some d
                   | None => strip_prefix [36;123;82;77;68;73;82;125;32;37;68;47] arg
                   end in
        match dir with
        | None => false
        | Some d => negb (contains_sub [116;114;117;101] d) && negb (contains_sub [36;123;84;82;85;69;125] d)
        end
      else false
    else false
  | [] => false
  end.

Inductive lres := LKeep (l : str) | LDelete | LFuel.
Definition plist_line_fix (raw : str) : lres :=
  match strip_conds raw with
  | None => LFuel
  | Some text =>
    match text with
    | [] => LDelete
    | c :: _ =>
      if plist_line_start c then
        if str_eqb (first_part text) pkgmandir then
          LKeep (if count_pkgmandir raw =? 1 then replace_first pkgmandir_slash man_slash raw else raw)
        else if str_eqb (first_part text) [109;97;110] then
          LKeep (if gz_text text && ends_gz raw then drop_last3 raw else raw)
        else LKeep raw
      else if unexec_rmdir text then LDelete else LKeep raw
    end
  end.
(* which fix is offered for a line (for the statements) *)
Definition gz_offered (raw : str) : bool :=
  match strip_conds raw with
  | Some (c :: t) => plist_line_start c && str_eqb (first_part (c :: t)) [109;97;110] && gz_text (c :: t) && ends_gz raw
  | _ => false
  end.

Fixpoint plist_lines_fix (ls : list str) : option (list str) :=
  match ls with
  | [] => Some []
  | l :: r => match plist_line_fix l, plist_lines_fix r with
              | LFuel, _ => None
              | _, None => None
              | LDelete, Some r' => Some r'
              | LKeep l', Some r' => Some (l' :: r')
              end
  end.
Inductive pres := POk (ls : list str) | PPanic | PFuel.
Definition plist_pass (ls : list str) : pres :=
  match ls with
  | [] => PPanic
  | l0 :: r =>
    if is_cvsid_k IdPlist l0 then
      match r with
      | [] => POk ls                              (* "PLIST files must not be empty." *)
      | _ => match plist_lines_fix ls with Some o => POk o | None => PFuel end
      end
    else match plist_lines_fix ls with Some o => POk (id_suggest IdPlist :: o) | None => PFuel end
  end.

(* ---------- Makefile.common: MkLines.CheckUsedBy (mklines.go) with SplitToParagraphs.
   A file is its list of lines; in the corresponded domain there are no continuation lines. ---------- *)
Definition used_by_prefix : str := [35;32;117;115;101;100;32;98;121;32].   (* "# used by " *)
(* MkLineParser.Parse, as far as IsComment/IsEmpty of a line without continuation go:
   a line that starts with a tab is a comment if '#' follows the white-space, else a shell
   command (never empty); any other line is a comment if its trimmed text starts with '#'
   (this includes commented assignments), empty if the trimmed text is empty *)
Definition skip_hspace (l : str) : str := snd (span is_hspace l).
Definition mk_is_comment (l : str) : bool := match skip_hspace l with c :: _ => c =? 35 | [] => false end.
Definition mk_is_empty (l : str) : bool :=
  match l with
  | [] => true
  | c :: _ => if c =? 9 then false else match skip_hspace l with [] => true | _ :: _ => false end
  end.
Definition is_space_go (c : N) : bool := ((9 <=? c) && (c <=? 13)) || (c =? 32).   (* strings.Fields, ASCII *)
Fixpoint fields_count (in_field : bool) (s : str) : N :=
  match s with
  | [] => 0
  | c :: r => if is_space_go c then fields_count false r
              else (if in_field then 0 else 1) + fields_count true r
  end.
Definition is_used_by_line (l : str) : bool := has_prefix used_by_prefix l && (fields_count false l =? 4).

(* SplitToParagraphs.isEmpty(i), as a flag per line; prev = (i == 0 || lines[i-1].IsComment()) *)
Fixpoint sep_flags (prev : bool) (ls : list str) : list (bool * str) :=
  match ls with
  | [] => []
  | l :: r =>
    let next := match r with [] => true | n :: _ => mk_is_comment n end in
    (mk_is_empty l || (str_eqb l [35] && prev && next), l) :: sep_flags (mk_is_comment l) r
  end.
Inductive seg := Sep (l : str) | Par (ls : list str).
Fixpoint group (fl : list (bool * str)) : list seg :=
  match fl with
  | [] => []
  | (true, l) :: r => Sep l :: group r
  | (false, l) :: r => match group r with
                       | Par p :: gs => Par (l :: p) :: gs
                       | gs => Par [l] :: gs
                       end
  end.
Definition seg_lines (s : seg) : list str := match s with Sep l => [l] | Par p => p end.
Definition flatten (gs : list seg) : list str := flat_map seg_lines gs.

(* the closure in determineUsedParas, per paragraph: (hasUsedBy, hasOther, conflict, found) *)
Record pstate := mk_ps { ps_used : bool; ps_other : bool; ps_conflict : bool; ps_found : bool }.
Definition para_step (expected : str) (st : pstate) (l : str) : pstate :=
  if is_cvsid_k IdMk l then st
  else if is_used_by_line l then
    mk_ps true (ps_other st) (ps_conflict st || ps_other st) (ps_found st || str_eqb l expected)
  else mk_ps (ps_used st) true (ps_conflict st || ps_used st) (ps_found st).
Definition para_scan (expected : str) (p : list str) : pstate :=
  fold_left (para_step expected) p (mk_ps false false false false).
Definition para_is_used (expected : str) (p : list str) : bool :=
  let st := para_scan expected p in negb (ps_conflict st) && ps_used st.
Definition found_in (expected : str) (gs : list seg) : bool :=
  existsb (fun s => match s with Sep _ => false | Par p => ps_found (para_scan expected p) end) gs.
Definition has_used_para (expected : str) (gs : list seg) : bool :=
  existsb (fun s => match s with Sep _ => false | Par p => para_is_used expected p end) gs.
Definition has_par (gs : list seg) : bool :=
  existsb (fun s => match s with Sep _ => false | Par _ => true end) gs.
(* insert lines below the last line of the first paragraph that satisfies sel *)
Fixpoint insert_below (sel : list str -> bool) (ins : list str) (gs : list seg) : option (list seg) :=
  match gs with
  | [] => None
  | Sep l :: r => match insert_below sel ins r with Some r' => Some (Sep l :: r') | None => None end
  | Par p :: r => if sel p then Some (Par (p ++ ins) :: r)
                  else match insert_below sel ins r with Some r' => Some (Par p :: r') | None => None end
  end.
(* paras[0].to > 1 : the first paragraph ends behind the second line of the file *)
Definition first_para_to_gt1 (gs : list seg) : bool :=
  match gs with
  | Par [_] :: _ => false
  | _ => true
  end.
Definition used_by (name : str) (ls : list str) : option (list str) :=
  if (length ls <? 3)%nat then Some ls else
  let expected := used_by_prefix ++ name in
  let gs := group (sep_flags true ls) in
  if negb (has_par gs) then Some ls else                 (* len(paras) == 0: nothing to do *)
  if found_in expected gs then
    (if has_used_para expected gs then Some ls
     else match insert_below (fun _ => true) [] gs with Some _ => Some ls | None => None end)
  else if has_used_para expected gs then
    match insert_below (para_is_used expected) [expected] gs with
    | Some gs' => Some (flatten gs') | None => None end
  else
    match insert_below (fun _ => true) ((if first_para_to_gt1 gs then [[]] else []) ++ [expected]) gs with
    | Some gs' => Some (flatten gs')
    | None => None                            (* paras[0]: index out of range *)
    end.

(* ---------- round 5: the file on disk.  Load splits the bytes at "\n"; Line.Text is the
   part before the "\n" -- a "\r" in front of it stays in the text; the last line may be
   unterminated (then it is not empty).  SaveAutofixChanges writes every line with the
   terminator it had and every INSERTED line with "\n" (autofix.go InsertAbove/InsertBelow),
   whatever the neighbours end in: in terms of texts, an inserted line never ends in "\r". ---------- *)
Fixpoint split_nl (cur : str) (bs : str) : list str * bool :=      (* texts, last line terminated *)
  match bs with
  | [] => match cur with [] => ([], true) | _ :: _ => ([rev cur], false) end
  | c :: r => if c =? 10 then let (ls, t) := split_nl [] r in (rev cur :: ls, t)
              else split_nl (c :: cur) r
  end.
Definition load_file (bs : str) : list str * bool := split_nl [] bs.
(* every line followed by "\n", except the last one if t = false *)
Fixpoint save_file (ls : list str) (t : bool) : str :=
  match ls with
  | [] => []
  | l :: r => match r with
              | [] => if t then l ++ [10] else l
              | _ :: _ => l ++ 10 :: save_file r t
              end
  end.
Definition nl_free (l : str) : bool := forallb (fun c => negb (c =? 10)) l.
(* what can be written and read back: an unterminated last line is not empty *)
Definition saveable (ls : list str) (t : bool) : Prop := t = true \/ last ls [] <> [].
