(* RedundantScope on makefiles with directives: .if/.else/.endif with conditions
   over variables, .for/.endfor, .undef, multiple-inclusion guards, files from
   the pkgsrc infrastructure (mk/).

   A d-program is the list of lines MkLines.ForEach visits (included files
   spliced in).  This file models
     - Indentation.TrackBefore / TrackAfter / IsConditional / Varnames
       (mkline.go): a stack of levels, each with its guard flag and the
       variables of its condition (AddVar skips names that end in _MK),
     - findGuardLine (mklines.go) on the statement structure of ParseMkStmts,
     - RedundantScope.checkLine: updateIncludePath, handleVarassign with
       ind.IsConditional() and ind.Varnames() handed to Var.Write, the .undef
       case (Var.undef), handleExpr on directive lines (the variables of a
       condition / of the items of a .for are read eagerly, unless the file
       belongs to the infrastructure),
     - the two callers: NewMkLines on ONE list of lines computes the guard line
       (CheckFileMk; [check_file]); Package.load builds allLines without a guard
       line and drops verdicts that flag a line of the infrastructure
       (IsRelevant; [check_pkg]).
   No proofs here. *)
From PV Require Import Lib.Bytes Model.Redundant.

Inductive dcond := DCDefined (x : var) | DCEmpty (x : var) | DCConst (b : bool).

Inductive dbody :=
| DAssign (a : assign)
| DComment                         (* comment or empty line: ParseMkStmts ignores it *)
| DInclude                         (* .include "literal path": a statement *)
| DUndef (xs : list var)
| DIf (neg : bool) (c : dcond)
| DElse
| DEndif
| DFor (used : list var) (n : nat) (* the variables used in the items, the number of items *)
| DEndfor.

Record dline := mkDLine { dl_file : N; dl_lineno : N; dl_infra : bool; dl_body : dbody }.
Definition dprogram := list dline.

(* ---------- Indentation ---------- *)

Record level := mkLevel { lv_guard : bool; lv_vars : list var }.
Definition levels := list level.   (* innermost first *)

Definition cond_vars (c : dcond) : list var :=
  match c with DCDefined x | DCEmpty x => [x] | DCConst _ => [] end.

(* hasSuffix(varname, "_MK") *)
Definition ends_in_mk (x : var) : bool :=
  match rev x with
  | 75 :: 77 :: 95 :: _ => true
  | _ => false
  end.

(* mkline == ind.guardLine *)
Definition is_guard_line (guard_line : option nat) (idx : nat) : bool :=
  match guard_line with Some g => Nat.eqb g idx | None => false end.

(* TrackBefore (isBuildlink3Guard: no buildlink3.mk in this fragment) *)
Definition track_before (guard_line : option nat) (lv : levels) (idx : nat) (b : dbody) : levels :=
  match b with
  | DIf _ _ | DFor _ _ => mkLevel (is_guard_line guard_line idx) [] :: lv
  | _ => lv
  end.

(* TrackAfter: Pop for .endif/.endfor (not on the empty stack);
   RememberUsedVariables for .if *)
Definition track_after (lv : levels) (b : dbody) : levels :=
  match b with
  | DEndif | DEndfor => match lv with [] => [] | _ :: r => r end
  | DIf _ c =>
      match lv with
      | [] => []
      | top :: r =>
          mkLevel (lv_guard top)
            (set_add_all (lv_vars top) (filter (fun x => negb (ends_in_mk x)) (cond_vars c))) :: r
      end
  | _ => lv
  end.

Definition is_conditional (lv : levels) : bool := existsb (fun l => negb (lv_guard l)) lv.

(* Varnames: outermost level first *)
Definition varnames (lv : levels) : list var :=
  fold_left (fun acc l => set_add_all acc (lv_vars l)) (rev lv) [].

(* ---------- findGuardLine ---------- *)

(* ^[A-Za-z_]\w*$ *)
Definition is_alpha_ (c : N) : bool :=
  ((65 <=? c) && (c <=? 90)) || ((97 <=? c) && (c <=? 122)) || (c =? 95).
Definition is_word (c : N) : bool := is_alpha_ c || ((48 <=? c) && (c <=? 57)).
Definition guard_name_ok (x : var) : bool :=
  match x with [] => false | c :: r => is_alpha_ c && forallb is_word r end.

(* After the opening .if: [stack] = the open statements, true = .if, false = .for;
   the file is a guard file iff the opening .if is closed by the very last
   statement and has no .else *)
Fixpoint closes_at_end (stack : list bool) (p : list dbody) : bool :=
  match p with
  | [] => false
  | b :: r =>
    match b with
    | DComment => closes_at_end stack r
    | DIf _ _ => closes_at_end (true :: stack) r
    | DFor _ _ => closes_at_end (false :: stack) r
    | DElse =>
        match stack with
        | [true] => false
        | true :: _ => closes_at_end stack r
        | _ => false
        end
    | DEndif =>
        match stack with
        | [true] => forallb (fun b => match b with DComment => true | _ => false end) r
        | true :: s => closes_at_end s r
        | _ => false
        end
    | DEndfor =>
        match stack with
        | false :: s => closes_at_end s r
        | _ => false
        end
    | _ => closes_at_end stack r
    end
  end.

Fixpoint find_guard_from (idx : nat) (p : list dbody) : option nat :=
  match p with
  | [] => None
  | DComment :: r => find_guard_from (S idx) r
  | DIf true (DCDefined x) :: r =>
      if guard_name_ok x && closes_at_end [true] r then Some idx else None
  | _ :: _ => None
  end.
Definition find_guard (p : dprogram) : option nat := find_guard_from 0 (map dl_body p).

(* ---------- RedundantScope.checkLine ---------- *)

Definition dplain (l : dline) : line := mkLine (dl_file l) (dl_lineno l) None.

(* Var.undef *)
Definition var_undef (v : mvar) : mvar :=
  mkVar C3 [] (v_value v) (v_writes v) true (v_refs v).
Definition undef_one (s : scope) (x : var) : scope :=
  let info := s_vars s x in
  mkScope (upd (s_vars s) x (mkInfo (var_undef (vi_var info)) (vi_paths info) (vi_last info)))
          (s_path s) (set_add (s_names s) x).

(* v.refs.AddAll(conditionVarnames), the last statement of Var.Write that touches refs *)
Definition add_refs (s : scope) (x : var) (ws : list var) : scope :=
  match ws with [] => s | _ :: _ =>
  let info := s_vars s x in
  let v := vi_var info in
  mkScope (upd (s_vars s) x
             (mkInfo (mkVar (v_state v) (v_cval v) (v_value v) (v_writes v) (v_cond v)
                            (set_add_all (v_refs v) ws))
                     (vi_paths info) (vi_last info)))
          (s_path s) (s_names s)
  end.

(* handleExpr on a directive line: every used variable is read, eagerly *)
Definition reads_assign (ws : list var) : assign := mkAssign [] OpShell (map Ref ws).

Definition check_line_d (guard_line : option nat) (s : scope) (lv : levels) (idx : nat) (l : dline)
  : result (scope * levels * list verdict) :=
  let lv1 := track_before guard_line lv idx (dl_body l) in
  match update_include_path s (dplain l) with
  | Panic => Panic
  | OutOfFuel => OutOfFuel
  | Ok s1 =>
    let after := track_after lv1 (dl_body l) in
    match dl_body l with
    | DAssign a =>
        match handle_varassign s1 idx a (is_conditional lv1) with
        | Panic => Panic
        | OutOfFuel => OutOfFuel
        | Ok (s2, vs) =>
            match handle_expr (add_refs s2 (a_var a) (varnames lv1)) a with
            | Ok s3 => Ok (s3, after, vs)
            | Panic => Panic
            | OutOfFuel => OutOfFuel
            end
        end
    | DUndef xs => Ok (fold_left undef_one xs s1, after, [])
    | DIf _ c =>
        if dl_infra l then Ok (s1, after, []) else
        match handle_expr s1 (reads_assign (cond_vars c)) with
        | Ok s2 => Ok (s2, after, [])
        | Panic => Panic
        | OutOfFuel => OutOfFuel
        end
    | DFor used _ =>
        if dl_infra l then Ok (s1, after, []) else
        match handle_expr s1 (reads_assign used) with
        | Ok s2 => Ok (s2, after, [])
        | Panic => Panic
        | OutOfFuel => OutOfFuel
        end
    | _ => Ok (s1, after, [])
    end
  end.

(* the diagnostics of every line, in program order *)
Fixpoint check_from_d (g : option nat) (s : scope) (lv : levels) (idx : nat) (ls : dprogram)
  : result (list (list verdict)) :=
  match ls with
  | [] => Ok []
  | l :: ls' =>
    match check_line_d g s lv idx l with
    | Panic => Panic
    | OutOfFuel => OutOfFuel
    | Ok (s', lv', vs) =>
      match check_from_d g s' lv' (S idx) ls' with
      | Panic => Panic
      | OutOfFuel => OutOfFuel
      | Ok rest => Ok (vs :: rest)
      end
    end
  end.

Definition check_lines_d (g : option nat) (p : dprogram) : result (list (list verdict)) :=
  check_from_d g new_scope [] 0 p.

Definition check_d (g : option nat) (p : dprogram) : result (list verdict) :=
  match check_lines_d g p with
  | Ok per_line => Ok (concat per_line)
  | Panic => Panic
  | OutOfFuel => OutOfFuel
  end.

(* NewMkLines on these lines + RedundantScope.Check (CheckFileMk, the unit shim) *)
Definition check_file (p : dprogram) : result (list verdict) := check_d (find_guard p) p.

(* Package.load: allLines has no guard line; IsRelevant drops what flags a
   line of the infrastructure *)
Definition infra_at (p : dprogram) (i : nat) : bool :=
  match nth_error p i with Some l => dl_infra l | None => false end.
Definition check_pkg (p : dprogram) : result (list verdict) :=
  match check_d None p with
  | Ok vs => Ok (filter (fun v => negb (infra_at p (vd_flagged v))) vs)
  | Panic => Panic
  | OutOfFuel => OutOfFuel
  end.
