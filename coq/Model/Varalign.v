(* Model of /repo/v23/varalignblock.go (VaralignBlock.Process / Finish /
   optimalWidth / varnameOpWidths / spaceWidths, varalignMkLine.realign /
   rightMargin, varalignLine.realignDetails / alignValueSingle /
   alignValueInitial / alignValueMultiFollow / alignValue / alignFollow /
   alignContinuation / replaceSpaceBeforeValue /
   replaceSpaceBeforeContinuationSilently, the varalignParts accessors) and of
   Autofix.ReplaceAt as far as the raw text is concerned.

   The result of VaralignSplitter.split (the six parts of every raw line) is the
   INPUT of this model; the splitter itself belongs to another model.
   One definition per Go function, same case structure, no proofs.
   A Go panic (assert, index, slice bound) is the result Panic.

   tabWidthAppend's `assert(r != '\n')` is not repeated at every call: raw
   lines never contain '\n' (VaralignSplitter.split asserts it, the line reader
   guarantees it); `finish` returns Panic when a part contains '\n', the other
   functions use the assertion-free twa0. *)
From PV Require Import Lib.Bytes Model.Tabs.
Open Scope Z_scope.

Inductive res (A : Type) : Type := Ok (a : A) | Panic.
Arguments Ok {A} a.
Arguments Panic {A}.
Definition bind {A B} (m : res A) (f : A -> res B) : res B :=
  match m with Ok a => f a | Panic => Panic end.
Notation "x <- m ;; f" := (bind m (fun x => f)) (at level 61, m at next level, right associativity).
Definition lift {A} (o : option A) : res A := match o with Some a => Ok a | None => Panic end.

Fixpoint map_res {A B} (f : A -> res B) (l : list A) : res (list B) :=
  match l with
  | [] => Ok []
  | a :: l' => b <- f a ;; r <- map_res f l' ;; Ok (b :: r)
  end.

(* ---- type varalignParts ---- *)
Record parts := mkParts {
  lc : str;    (* leadingComment: "#" or some spaces *)
  vo : str;    (* varnameOp: empty iff follow-up line *)
  sbv : str;   (* spaceBeforeValue: for follow-up lines the indentation *)
  val : str;   (* value, including any trailing comment *)
  sav : str;   (* spaceAfterValue *)
  cont : str   (* continuation: a backslash or empty *)
}.

(* func (p *varalignParts) String() *)
Definition parts_string (p : parts) : str := lc p ++ vo p ++ sbv p ++ val p ++ sav p ++ cont p.

Definition set_sbv (p : parts) (s : str) : parts := mkParts (lc p) (vo p) s (val p) (sav p) (cont p).
Definition set_sav (p : parts) (s : str) : parts := mkParts (lc p) (vo p) (sbv p) (val p) s (cont p).

Definition varnameOpIndex (p : parts) : Z := 0 + len (lc p).
Definition spaceBeforeValueIndex (p : parts) : Z := varnameOpIndex p + len (vo p).
Definition valueIndex (p : parts) : Z := spaceBeforeValueIndex p + len (sbv p).
Definition spaceAfterValueIndex (p : parts) : Z := valueIndex p + len (val p).
Definition continuationIndex (p : parts) : Z := spaceAfterValueIndex p + len (sav p).

Definition varnameOpColumn (p : parts) : Z := twa0 0 (lc p).
Definition spaceBeforeValueColumn (p : parts) : Z := twa0 (varnameOpColumn p) (vo p).
Definition valueColumn (p : parts) : Z := twa0 (spaceBeforeValueColumn p) (sbv p).
Definition spaceAfterValueColumn (p : parts) : Z := twa0 (valueColumn p) (val p).
Definition continuationColumn (p : parts) : Z := twa0 (spaceAfterValueColumn p) (sav p).

Definition isContinuation (p : parts) : bool := negb (is_nil (cont p)).
Definition isEmptyContinuation (p : parts) : bool := is_nil (val p) && isContinuation p.
Definition isEmpty (p : parts) : bool := is_nil (val p) && negb (isContinuation p).
Definition spaceBeforeContinuation (p : parts) : str := if is_nil (val p) then sbv p else sav p.
Definition setSpaceBeforeContinuation (p : parts) (s : str) : parts :=
  if is_nil (val p) then set_sbv p s else set_sav p s.
Definition spaceBeforeContinuationIndex (p : parts) : res Z :=
  if negb (isContinuation p) then Panic          (* assert(p.isContinuation()) *)
  else if is_nil (val p) then Panic              (* assert(p.value != "") *)
  else Ok (spaceAfterValueIndex p).
Definition uptoValueWidth (p : parts) : Z :=
  if negb (is_nil (val p)) then spaceAfterValueColumn p else spaceBeforeValueColumn p.
Definition isCommentedOut (p : parts) : bool := has_prefix [HASH] (lc p).
Definition all_tabs (s : str) : bool := forallb (fun c => (c =? TAB)%N) s.
Definition isCanonicalInitial (p : parts) (column : Z) : bool :=
  let space := sbv p in
  if is_nil space then false
  else if str_eqb space [SP] && (column <? valueColumn p) then true
  else all_tabs space.                           (* strings.TrimLeft(space, "\t") == "" *)
Definition isTooLongFor (p : parts) (valueColumn : Z) : bool :=
  let column := twa0 (Z.max valueColumn 8) (val p) in
  let column := if isContinuation p then column + 2 else column in
  73 <? column.

(* ---- Autofix.ReplaceAt on fix.texts[rawIndex] (= text ++ "\n") ----
   from/to never contain '\n' here, so hasPrefix(text[textIndex:], from) can be
   decided on the text without its newline. *)
Definition replace_at (text : str) (idx : Z) (from to : str) : res str :=
  if str_eqb from to then Panic                                   (* assert(from != to) *)
  else if negb (idx <? len text + 1) then Panic                   (* assert(textIndex < len(text)) *)
  else if idx <? 0 then Panic                                     (* text[textIndex:] *)
  else match strip_prefix from (skipn (Z.to_nat idx) text) with
       | Some rest => Ok (firstn (Z.to_nat idx) text ++ to ++ rest)
       | None => Panic                                            (* assert(hasPrefix(text[textIndex:], from)) *)
       end.

(* ---- type varalignLine: the raw text as Autofix holds it, the flag, the parts;
   `log` collects the (from, to) pairs of the ReplaceAt calls (the AUTOFIX lines) ---- *)
Record info := mkInfo {
  text : str;
  fixedSBC : bool;               (* fixedSpaceBeforeContinuation *)
  ps : parts;
  log : list (str * str)
}.

Definition do_replace (i : info) (idx : Z) (from to : str) (fixed : bool) (p' : parts) : res info :=
  t <- replace_at (text i) idx from to ;;
  Ok (mkInfo t fixed p' (log i ++ [(from, to)])).

(* func (info *varalignLine) alignValueSingle(newWidth int) *)
Definition alignValueSingle (i : info) (newWidth : Z) : res info :=
  let p := ps i in
  let oldSpace := sbv p in
  newSpace0 <- lift (alignmentToWidths (spaceBeforeValueColumn p) newWidth) ;;
  if is_nil newSpace0 && isCanonicalInitial p newWidth then Ok i
  else
    let newSpace := if is_nil newSpace0 then [SP] else newSpace0 in
    (* a line that fits into 72 columns is not pushed beyond them: it keeps its tabs
       or gets a single space *)
    let widthWith (space : str) := twa0 (twa0 (spaceBeforeValueColumn p) space) (val p) in
    let blocked :=
      negb (str_eqb newSpace [SP]) &&
      (widthWith (if is_nil oldSpace then [SP] else oldSpace) <=? 72) &&
      (72 <? widthWith newSpace) in
    if blocked && (negb (is_nil oldSpace) && all_tabs oldSpace) then Ok i
    else
      let newSpace := if blocked then [SP] else newSpace in
      if str_eqb newSpace oldSpace then Ok i
      else do_replace i (spaceBeforeValueIndex p) oldSpace newSpace (fixedSBC i) (set_sbv p newSpace).

(* func (info *varalignLine) alignValue(width int) *)
Definition alignValue (i : info) (width : Z) : res info :=
  let p := ps i in
  newSpace <- lift (alignmentToWidths (spaceBeforeValueColumn p) width) ;;
  do_replace i (spaceBeforeValueIndex p) (sbv p) newSpace (fixedSBC i) (set_sbv p newSpace).

(* func (info *varalignLine) alignValueInitial(newWidth int) *)
Definition alignValueInitial (i : info) (newWidth : Z) : res info :=
  let p := ps i in
  if isEmptyContinuation p && (newWidth <? valueColumn p) then Ok i
  else
    newSpace <- lift (alignmentToWidths (spaceBeforeValueColumn p) newWidth) ;;
    if str_eqb newSpace (sbv p) then Ok i else alignValue i newWidth.

(* func (info *varalignLine) replaceSpaceBeforeContinuationSilently(fix, column) *)
Definition replaceSpaceBeforeContinuationSilently (i : info) (column : Z) : res info :=
  let p := ps i in
  if is_nil (val p) then Ok i
  else
    let oldSpace := spaceBeforeContinuation p in
    if str_eqb oldSpace [SP] then Ok i
    else
      newSpace0 <- lift (alignmentToWidths (uptoValueWidth p) column) ;;
      let newSpace := if is_nil newSpace0 then [SP] else newSpace0 in
      if str_eqb oldSpace newSpace then Ok i
      else
        index <- spaceBeforeContinuationIndex p ;;
        do_replace i index (oldSpace ++ [BSL]) (newSpace ++ [BSL]) true
                   (setSpaceBeforeContinuation p newSpace).

(* func (info *varalignLine) alignFollow(newSpace string), with replaceSpaceBeforeValue inlined *)
Definition alignFollow (i : info) (newSpace : str) : res info :=
  let p := ps i in
  if isEmpty p then Ok i
  else
    let continuationColumn :=
      if negb (str_eqb (spaceBeforeContinuation p) [SP]) then Z.min 72 (continuationColumn p) else 0 in
    i1 <- do_replace i (spaceBeforeValueIndex p) (sbv p) newSpace (fixedSBC i) (set_sbv p newSpace) ;;
    if isContinuation (ps i1) then replaceSpaceBeforeContinuationSilently i1 continuationColumn
    else Ok i1.

(* func (info *varalignLine) alignValueMultiFollow(newWidth int) *)
Definition alignValueMultiFollow (i : info) (newWidth : Z) : res info :=
  newSpace <- lift (indent newWidth) ;;
  if str_eqb newSpace (sbv (ps i)) then Ok i else alignFollow i newSpace.

(* func (info *varalignLine) alignContinuation(valueColumn, rightMarginColumn int) *)
Definition alignContinuation (i : info) (valueColumn rightMarginColumn : Z) : res info :=
  let p := ps i in
  if negb (isContinuation p) then Ok i
  else
    let oldSpace := spaceBeforeContinuation p in
    if str_eqb oldSpace [SP] then Ok i
    else
      let column := continuationColumn p in
      if (column <=? 72) && str_eqb oldSpace [TAB] then Ok i
      else if (column =? 72) || (column =? rightMarginColumn) || (column <=? valueColumn) then Ok i
      else
        newSpace <-
          (if is_nil oldSpace || (rightMarginColumn =? 0) then Ok [SP]
           else if isTooLongFor p valueColumn then Ok [SP]
           else lift (alignmentToWidths (uptoValueWidth p) rightMarginColumn)) ;;
        let index := continuationIndex p - len oldSpace in
        do_replace i index oldSpace newSpace (fixedSBC i) (setSpaceBeforeContinuation p newSpace).

(* func (info *varalignLine) realignDetails(newWidth, indentDiff *optInt, isMultiEmpty);
   first = (rawIndex == 0); the optInt is threaded through *)
Definition realignDetails (i : info) (first : bool) (newWidth : Z) (indentDiff : option Z)
           (isMultiEmpty : bool) : res (info * option Z) :=
  let p := ps i in
  if first && isContinuation p then
    i' <- alignValueInitial i newWidth ;; Ok (i', indentDiff)
  else if isMultiEmpty then
    let oldWidth := tab_width (sbv p) in
    let indentDiff' :=
      match indentDiff with
      | Some d => Some d
      | None =>
        Some (if negb (newWidth =? 0) then
                let diff := newWidth - oldWidth in
                if (0 <? diff) && negb (isCommentedOut p) then 0 else diff
              else 0)
      end in
    d <- lift indentDiff' ;;
    let width := Z.max (oldWidth + d) 8 in
    i' <- alignValueMultiFollow i width ;; Ok (i', indentDiff')
  else if negb first then
    d <- lift indentDiff ;;                                   (* optInt.get: assert(i.isSet) *)
    let width := Z.max newWidth (valueColumn p + d) in
    i' <- alignValueMultiFollow i width ;; Ok (i', indentDiff)
  else
    i' <- alignValueSingle i newWidth ;; Ok (i', indentDiff).

(* sort.Ints *)
Fixpoint insert_asc (x : Z) (l : list Z) : list Z :=
  match l with
  | [] => [x]
  | y :: l' => if x <=? y then x :: l else y :: insert_asc x l'
  end.
Definition sort_asc (l : list Z) : list Z := fold_right insert_asc [] l.

(* the loop `for i := len(columns) - 2; i >= 0; i--` over the ascending list: the
   largest value that occurs twice *)
Fixpoint largest_duplicate (sorted : list Z) : option Z :=
  match sorted with
  | a :: ((b :: _) as rest) =>
    match largest_duplicate rest with
    | Some d => Some d
    | None => if a =? b then Some a else None
    end
  | _ => None
  end.

(* func (l *varalignMkLine) rightMargin() (ok bool, margin int) *)
Definition rightMargin (l : list info) : res (bool * Z) :=
  match l with
  | [] => Panic                                               (* l.infos[0] *)
  | i0 :: _ =>
    let infos := if is_nil (val (ps i0)) then skipn 1 l else l in
    let columns :=
      flat_map (fun i =>
        let p := ps i in
        if isContinuation p then
          let space := spaceBeforeContinuation p in
          if negb (is_nil space) && negb (str_eqb space [SP]) then [continuationColumn p] else []
        else []) infos in
    if Z.of_nat (length columns) <=? 1 then Ok (false, 0)
    else
      let sorted := sort_asc columns in
      match largest_duplicate sorted with
      | Some col =>
        let ok := (hd 0 sorted =? last sorted 0) && (col <=? 72) in
        Ok (ok, Z.min col 72)
      | None =>
        let min := fold_left (fun m i =>
                     let p := ps i in
                     if isContinuation p then
                       let mainWidth := uptoValueWidth p in if m <? mainWidth then mainWidth else m
                     else m) infos 0 in
        Ok (false, min / 8 * 8 + 8)
      end
  end.

(* the loop of varalignMkLine.realign *)
Fixpoint realign_loop (l : list info) (first : bool) (newWidth : Z) (indentDiff : option Z)
         (isMultiEmpty : bool) (rightMarginColumn : Z) : res (list info) :=
  match l with
  | [] => Ok []
  | i :: l' =>
    r <- (if (0 <? newWidth) || negb first
          then realignDetails i first newWidth indentDiff isMultiEmpty
          else Ok (i, indentDiff)) ;;
    i2 <- (if negb (fixedSBC (fst r)) then alignContinuation (fst r) newWidth rightMarginColumn
           else Ok (fst r)) ;;
    rest <- realign_loop l' false newWidth (snd r) isMultiEmpty rightMarginColumn ;;
    Ok (i2 :: rest)
  end.

(* func (l *varalignMkLine) realign(newWidth int) *)
Definition realign (l : list info) (newWidth : Z) : res (list info) :=
  match l with
  | [] => Panic
  | i0 :: _ =>
    rm <- rightMargin l ;;
    let isMultiEmpty := isEmptyContinuation (ps i0) in
    let indentDiff :=
      if negb isMultiEmpty && isContinuation (ps i0)
      then Some (newWidth - valueColumn (ps i0)) else None in
    realign_loop l true newWidth indentDiff isMultiEmpty (snd rm)
  end.

(* bag.sortDesc: stable, descending by count; an entry = (count, info[0].isContinuation()) *)
Fixpoint insert_desc (x : Z * bool) (l : list (Z * bool)) : list (Z * bool) :=
  match l with
  | [] => [x]
  | y :: l' => if fst x <? fst y then y :: insert_desc x l' else x :: l
  end.
Definition sort_desc (l : list (Z * bool)) : list (Z * bool) := fold_right insert_desc [] l.

Definition first_parts (l : list info) : res parts :=
  match l with [] => Panic | i :: _ => Ok (ps i) end.

(* func (va *VaralignBlock) varnameOpWidths() (int, int) *)
Definition varnameOpWidths (firsts : list parts) : Z * Z :=
  let widths :=
    flat_map (fun p => if negb (isEmptyContinuation p)
                       then [(spaceBeforeValueColumn p, isContinuation p)] else []) firsts in
  match sort_desc widths with
  | [] => (0, 0)
  | (longest, longestIsCont) :: rest =>
    let secondLongest := match rest with [] => 0 | (s, _) :: _ => s end in
    let haveOutlier :=
      negb (secondLongest =? 0) &&
      (Z.quot secondLongest 8 + 1 <? Z.quot longest 8) &&
      negb longestIsCont in
    if haveOutlier then (secondLongest, longest) else (longest, 0)
  end.

Definition MaxInt : Z := 9223372036854775807.
Definition MinInt : Z := -9223372036854775808.

(* func (va *VaralignBlock) spaceWidths(outlier int) (min, max int) *)
Definition spaceWidths (firsts : list parts) (outlier : Z) : Z * Z :=
  fold_left (fun mm p =>
    if isEmptyContinuation p || ((0 <? outlier) && (spaceBeforeValueColumn p =? outlier)) then mm
    else
      let x := valueColumn p in
      ((if x <? fst mm then x else fst mm), (if snd mm <? x then x else snd mm)))
    firsts (MaxInt, MinInt).

(* func (va *VaralignBlock) optimalWidth() int *)
Definition optimalWidth (firsts : list parts) : Z :=
  let '(minVarnameOpWidth, outlier) := varnameOpWidths firsts in
  let '(minTotalWidth, maxTotalWidth) := spaceWidths firsts outlier in
  if (minVarnameOpWidth <? minTotalWidth) && (minTotalWidth =? maxTotalWidth)
     && (Z.rem minTotalWidth 8 =? 0)
  then minTotalWidth
  else if minVarnameOpWidth =? 0 then 0
  else minVarnameOpWidth / 8 * 8 + 8.

Definition parts_has_nl (p : parts) : bool :=
  has_nl (lc p) || has_nl (vo p) || has_nl (sbv p) || has_nl (val p) || has_nl (sav p) || has_nl (cont p).

(* func (va *VaralignBlock) Finish(), on va.mkinfos and va.skip *)
Definition finish (mkinfos : list (list info)) (skip : bool) : res (list (list info)) :=
  if is_nil mkinfos || skip then Ok mkinfos
  else if existsb (existsb (fun i => negb (str_eqb (text i) (parts_string (ps i))))) mkinfos
  then Ok mkinfos                     (* another fix changed a line: leave the block alone *)
  else if existsb (existsb (fun i => parts_has_nl (ps i))) mkinfos then Panic
  else
    firsts <- map_res first_parts mkinfos ;;
    let newWidth := optimalWidth firsts in
    map_res (fun l => realign l newWidth) mkinfos.

(* ---- VaralignBlock.Process / processVarassign over the lines of a file ---- *)
Inductive lkind : Type :=
| KEmpty                                      (* mkline.IsEmpty() *)
| KAssign (evalOp lowerName valueEmpty hasComment : bool)   (* IsVarassignMaybeCommented *)
| KNeutral                                    (* IsComment() or IsDirective() *)
| KOther.                                     (* everything else: va.skip = true *)

(* processVarassign: which assignments take part *)
Definition participates (k : lkind) : bool :=
  match k with
  | KAssign evalOp lowerName valueEmpty hasComment =>
    negb (evalOp && lowerName) && negb (valueEmpty && negb hasComment)
  | _ => false
  end.

Record fline := mkFline { fkind : lkind; finfos : list info }.

Fixpoint put_back (pending : list fline) (fixed : list (list info)) : list fline :=
  match pending with
  | [] => []
  | f :: r =>
    if participates (fkind f) then
      match fixed with
      | x :: fx => mkFline (fkind f) x :: put_back r fx
      | [] => f :: put_back r []
      end
    else f :: put_back r fixed
  end.

Definition flush_pending (pending : list fline) (skip : bool) : res (list fline) :=
  ms <- finish (map finfos (filter (fun f => participates (fkind f)) pending)) skip ;;
  Ok (put_back pending ms).

(* MkLines.checkAll: varalign.Process(mkline) for every line, varalign.Finish() at the end *)
Fixpoint process_file (ls pending_rev : list fline) (skip : bool) : res (list fline) :=
  match ls with
  | [] => flush_pending (rev pending_rev) skip
  | f :: r =>
    match fkind f with
    | KEmpty =>
      a <- flush_pending (rev pending_rev) skip ;;
      b <- process_file r [] false ;;
      Ok (a ++ f :: b)
    | KOther => process_file r (f :: pending_rev) true
    | _ => process_file r (f :: pending_rev) skip
    end
  end.

Definition mk_info (t : str) (p : parts) : info := mkInfo t false p [].

(* ---- paragraphs made only of single-line assignments ---- *)
Definition single (p : parts) : list info := [mk_info (parts_string p) p].
Definition realign_para (para : list parts) : res (list (list info)) :=
  finish (map single para) false.
(* width of a raw line, measured part by part like the code does *)
Definition line_width (p : parts) : Z := twa0 (continuationColumn p) (cont p).
