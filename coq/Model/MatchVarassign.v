(* Model of MkLineParser.matchVarassign (/repo/v23/mklineparser.go) for a logical line
   made of SEVERAL raw lines, as MkLineParser.Parse drives it on the lines that
   convertToLogicalLines (Model/Lines.v, C09) produces:

     text                 = line.Text       (the joined logical text)
     raw0                 = line.raw[0].Orig()
     multiline            = line.IsMultiline() = len(line.raw) > 1

   The differences to Model/MkLineSplit.v (one raw line, raw0 = text), code as of /repo 96b19dc:
     - right after NewMkOperator, for a multi-line line,
         upToOp := p.getRawValueAlign(text, condStr(commented, "#", "")+lexer.Since(mainStart))
         firstLine := rtrimHspace(strings.TrimSuffix(line.raw[0].Orig(), "\\"))
         if len(upToOp) > len(firstLine) { return false, nil }
       i.e. the operator must end inside the first raw line;
     - getRawValueAlign for valueAlign walks line.raw[0].Orig(), not the logical text.
   Definitions only. *)
From PV Require Import Lib.Bytes Gen.MkByteSets Model.MkLexPrim Model.MkLexer Model.MkTokensLexer
  Model.MkLineSplit.
From PV Require Model.Lines.
Open Scope N_scope.

(* rtrimHspace(strings.TrimSuffix(raw0, "\\")) *)
Definition first_line_of (raw0 : str) : str := rtrim_hspace (Lines.trim_suffix [92] raw0).

(* matchVarassign after the decision whether the line is a commented assignment;
   same statement order as the Go code *)
Definition match_varassign_tail_ml (multiline : bool) (raw0 text : str) (commented : bool) (sr : split_result)
    : res (option varassign) :=
  toks <- tokenize (sr_main sr) ;;
  let lexer0 := tl_new toks in
  let main_start := lexer0 in
  let lexer1 := if commented then lexer0 else tl_lift skip_spaces lexer0 in
  let rest1 := tl_rest lexer1 in
  '(vname, mkrest) <- Varname rest1 ;;
  lexer2 <- tl_skip_mixed (S (length rest1))
              (Z.of_nat (length rest1) - Z.of_nat (length mkrest))%Z lexer1 ;;
  match vname with
  | [] => Ok None
  | _ =>
    let '(space_after_varname, cur3) := next_bytes is_hspace (fst lexer2) in
    let lexer3 : tlexer := (cur3, snd lexer2) in
    let op_start := lexer3 in
    let cur4 := match cur3 with
                | c :: t => if (c =? 33) || (c =? 43) || (c =? 58) || (c =? 63) then t else cur3
                | [] => cur3
                end in
    match skip_byte 61 cur4 with
    | None => Ok None
    | Some cur5 =>
      let lexer5 : tlexer := (cur5, snd lexer2) in
      let op0 := tl_since op_start lexer5 in
      (* NewMkOperator panics on anything else *)
      if negb (existsb (str_eqb op0) [[61]; [33; 61]; [58; 61]; [43; 61]; [63; 61]]) then Panic
      else
        (* the operator must end in the first physical line *)
        rejected <-
          (if multiline then
             up_to_op <- get_raw_value_align text
                           ((if commented then [35] else []) ++ tl_since main_start lexer5) ;;
             Ok (length (first_line_of raw0) <? length up_to_op)%nat
           else Ok false) ;;
        if (rejected : bool) then Ok None
        else
        let '(vname', op) :=
          if has_suffix [43] vname && str_eqb op0 [61] && negb (nonempty space_after_varname)
          then (firstn (length vname - 1) vname, [43; 61])
          else (vname, op0) in
        let lexer6 := tl_lift (fun s => snd (next_bytes is_hspace s)) lexer5 in
        let value := trim_hspace (tl_rest lexer6) in
        let parsed_value_align := (if commented then [35] else []) ++ tl_since main_start lexer6 in
        align <- get_raw_value_align raw0 parsed_value_align ;;
        let '(align', sr') :=
          match value with
          | [] => (align ++ sr_space_before_comment sr,
                   mk_split (sr_main sr) [] (sr_has_comment sr) (sr_comment sr))
          | _ => (align, sr)
          end in
        Ok (Some (mk_varassign commented vname' space_after_varname op value align' sr'))
    end
  end.

(* matchVarassign(line, text, &splitResult); `first` = split(text, true) *)
Definition match_varassign_ml (multiline : bool) (raw0 text : str) (first : split_result)
    : res (option varassign) :=
  let commented := negb (nonempty (sr_main first)) && sr_has_comment first && has_prefix [35] text in
  if commented then
    let '(hs, crest) := next_bytes is_hspace (sr_comment first) in
    if nonempty hs || negb (nonempty crest) then Ok None
    else
      t1 <- skip 1 text ;;                             (* text[1:] *)
      sr <- split t1 true ;;
      match_varassign_tail_ml multiline raw0 text true sr
  else match_varassign_tail_ml multiline raw0 text false first.

(* Parse, for a line that does not start with a tab, up to matchVarassign *)
Definition parse_varassign_ml (multiline : bool) (raw0 text : str) : res (option varassign) :=
  first <- split text true ;;
  match_varassign_ml multiline raw0 text first.

(* the same for a Line as convertToLogicalLines builds it: line.raw[0] is a Go index expression *)
Definition varassign_of_line (l : Lines.line) : res (option varassign) :=
  match Lines.raws l with
  | [] => Panic
  | r0 :: more => parse_varassign_ml (match more with [] => false | _ :: _ => true end) (Lines.orig r0) (Lines.text l)
  end.

(* every logical line of a file: (line, what matchVarassign says) *)
Definition lift_lines_res {A : Type} (r : Lines.res A) : res A :=
  match r with Lines.Ok a => Ok a | Lines.Panic => Panic | Lines.OutOfFuel => OutOfFuel end.

Definition varassign_of_file (raw_text : str) : res (list (Lines.line * res (option varassign))) :=
  '(ls, _) <- lift_lines_res (Lines.convert_to_logical_lines raw_text true) ;;
  Ok (map (fun l => (l, varassign_of_line l)) ls).
