(* Model of RedundantScope (v23/redundantscope.go) and of Var (v23/var.go), as
   far as RedundantScope uses it.  One definition per Go function, same case
   structure.  No proofs here.

   Fragment: a program is the list of lines MkLines.ForEach visits, i.e. the
   lines of the main file with the lines of an included file spliced in after
   the .include line.  A line is either a variable assignment or "something
   else" (comment, empty line, .include); directives (.if/.for) are outside the
   fragment, hence Indentation.Depth is 0 and Var.Write gets conditional=false
   from this caller (the flag is still modelled).

   Strings are byte lists.  A value is a list of literal chunks and ${W}
   references; mkline.Value() is [render], MkLine.ForEachUsed is [uses],
   MkLine.WithoutMakeVariables is [without_vars]. *)
From PV Require Import Lib.Bytes.

Definition var := str.
Inductive chunk := Lit (s : str) | Ref (w : var).
Definition value := list chunk.

(* MkOperator: opAssign, opAssignShell, opAssignEval, opAssignAppend, opAssignDefault *)
Inductive op := OpAssign | OpShell | OpEval | OpAppend | OpDefault.

Record assign := mkAssign { a_var : var; a_op : op; a_val : value }.
Record line := mkLine { l_file : N; l_lineno : N; l_body : option assign }.
Definition program := list line.

Inductive result (A : Type) := Ok (a : A) | Panic | OutOfFuel.
Arguments Ok {A} a.
Arguments Panic {A}.
Arguments OutOfFuel {A}.

Definition op_eqb (a b : op) : bool :=
  match a, b with
  | OpAssign, OpAssign | OpShell, OpShell | OpEval, OpEval
  | OpAppend, OpAppend | OpDefault, OpDefault => true
  | _, _ => false
  end.

(* "${" w "}" *)
Definition render_chunk (c : chunk) : str :=
  match c with Lit s => s | Ref w => [36; 123] ++ w ++ [125] end.
Definition render (v : value) : str := flat_map render_chunk v.
Definition uses (v : value) : list var :=
  flat_map (fun c => match c with Lit _ => [] | Ref w => [w] end) v.
Definition without_vars (v : value) : str :=
  flat_map (fun c => match c with Lit s => s | Ref _ => [] end) v.

(* ---------- var.go ---------- *)

(* constantState: 0 = neither written nor read, 1 = constant, 2 = constant and
   read, 3 = not constant.  The field is a uint8 that is only ever assigned 3
   or or-ed with 1, so it ranges over these four values. *)
Inductive cstate := C0 | C1 | C2 | C3.

Definition cstate_eqb (a b : cstate) : bool :=
  match a, b with C0, C0 | C1, C1 | C2, C2 | C3, C3 => true | _, _ => false end.

(* [...]uint8{3, 2, 2, 3}[v.constantState] *)
Definition read_table (c : cstate) : cstate :=
  match c with C0 => C3 | C1 => C2 | C2 => C2 | C3 => C3 end.

(* v.constantState |= 1 *)
Definition or1 (c : cstate) : cstate :=
  match c with C0 => C1 | C1 => C1 | C2 => C3 | C3 => C3 end.

Record mvar := mkVar {
  v_state : cstate;          (* constantState *)
  v_cval : str;              (* constantValue *)
  v_value : str;             (* value *)
  v_writes : list (nat * assign);  (* writeLocations: index of the line in the program + the line *)
  v_cond : bool;             (* conditional *)
  v_refs : list var          (* refs: a StringSet, elements in insertion order *)
}.

Definition new_var : mvar := mkVar C0 [] [] [] false [].

(* StringSet.Add *)
Definition set_add (l : list var) (w : var) : list var :=
  if existsb (str_eqb w) l then l else l ++ [w].
Definition set_add_all (l : list var) (ws : list var) : list var := fold_left set_add ws l.

Definition is_constant (v : mvar) : bool :=
  match v_state v with C1 | C2 => true | _ => false end.

(* ConstantValue: assert(v.IsConstant()) *)
Definition constant_value (v : mvar) : result str :=
  if is_constant v then Ok (v_cval v) else Panic.

Definition var_read (v : mvar) : mvar :=
  mkVar (read_table (v_state v)) (v_cval v) (v_value v) (v_writes v) (v_cond v) (v_refs v).

(* Var.update, applied to v.value; called after writeLocations and conditional
   have been updated.  Returns the new content of the builder. *)
Definition var_update (v : mvar) (a : assign) : str :=
  let first_write := Nat.eqb (length (v_writes v)) 1 in
  if v_cond v && negb first_write then v_value v else
  let value := render (a_val a) in
  match a_op a with
  | OpAssign | OpEval => value
  | OpDefault => if first_write then value else v_value v
  | OpAppend => v_value v ++ [32] ++ value
  | OpShell => v_value v
  end.

Definition has_make_vars (vl : value) : bool :=
  negb (str_eqb (render vl) (without_vars vl)).

(* Var.updateConstantValue *)
Definition var_update_constant (v : mvar) (a : assign) : mvar :=
  if cstate_eqb (v_state v) C3 then v else
  if v_cond v then mkVar C3 [] (v_value v) (v_writes v) (v_cond v) (v_refs v) else
  let value := render (a_val a) in
  let '(st, cv) :=
    match a_op a with
    | OpAssign => (v_state v, value)
    | OpEval => if has_make_vars (a_val a) then (C3, []) else (v_state v, value)
    | OpDefault => if cstate_eqb (v_state v) C0 then (v_state v, value) else (v_state v, v_cval v)
    | OpAppend =>
        (v_state v, (if cstate_eqb (v_state v) C0 then v_cval v else v_cval v ++ [32]) ++ value)
    | OpShell => (C3, [])
    end in
  mkVar (or1 st) cv (v_value v) (v_writes v) (v_cond v) (v_refs v).

(* Var.Write; the file is assumed to be outside the pkgsrc infrastructure
   (G.Pkgsrc != nil && !IsInfra), so v.value is updated. *)
Definition var_write (v : mvar) (idx : nat) (a : assign) (conditional : bool) : mvar :=
  let v1 := mkVar (v_state v) (v_cval v) (v_value v) (v_writes v ++ [(idx, a)])
                  (v_cond v || conditional) (set_add_all (v_refs v) (uses (a_val a))) in
  let v2 := mkVar (v_state v1) (v_cval v1) (var_update v1 a) (v_writes v1) (v_cond v1) (v_refs v1) in
  var_update_constant v2 a.

(* ---------- includePath ---------- *)

(* files in push order *)
Definition ipath := list N.

Definition ipath_push (p : ipath) (f : N) : ipath := p ++ [f].

(* popUntil: p.files[len-1] panics on the empty slice.  Works on the reversed list. *)
Fixpoint pop_until_rev (r : list N) (f : N) : result (list N) :=
  match r with
  | [] => Panic
  | x :: r' => if x =? f then Ok r else pop_until_rev r' f
  end.
Definition ipath_pop_until (p : ipath) (f : N) : result ipath :=
  match pop_until_rev (rev p) f with Ok r => Ok (rev r) | Panic => Panic | OutOfFuel => OutOfFuel end.

(* p.includes(other): p is a proper prefix of other *)
Fixpoint ipath_includes (p other : ipath) : bool :=
  match p with
  | [] => match other with [] => false | _ :: _ => true end
  | x :: p' => match other with
               | [] => false
               | y :: o' => if x =? y then ipath_includes p' o' else false
               end
  end.

Fixpoint ipath_equals (p other : ipath) : bool :=
  match p, other with
  | [], [] => true
  | x :: p', y :: o' => (x =? y) && ipath_equals p' o'
  | _, _ => false
  end.

Definition includes_or_equals_all (p : ipath) (others : list ipath) : bool :=
  forallb (fun o => ipath_includes p o || ipath_equals p o) others.

Definition included_by_or_equals_all (p : ipath) (others : list ipath) : bool :=
  forallb (fun o => ipath_includes o p || ipath_equals p o) others.

(* ---------- redundantscope.go ---------- *)

Inductive action := ANone | ARead | AWrite.   (* lastAction 0 1 2 *)

Record varinfo := mkInfo { vi_var : mvar; vi_paths : list ipath; vi_last : action }.

(* s.vars with get(): a missing entry is created on first use, which is the
   same as a total map whose default is the fresh entry.
   [s_names] are the keys of the map, in the order get() created them. *)
Record scope := mkScope { s_vars : var -> varinfo; s_path : ipath; s_names : list var }.

Definition new_info : varinfo := mkInfo new_var [] ANone.
Definition new_scope : scope := mkScope (fun _ => new_info) [] [].

Definition upd {A} (m : var -> A) (k : var) (x : A) : var -> A :=
  fun k' => if str_eqb k k' then x else m k'.

Inductive vkind := KRedundant | KNoEffect | KOverwritten.
(* the line that gets the diagnostic, the line named in it, the message *)
Record verdict := mkVerdict { vd_flagged : nat; vd_because : nat; vd_kind : vkind }.

Definition update_include_path (s : scope) (l : line) : result scope :=
  if l_lineno l =? 1 then Ok (mkScope (s_vars s) (ipath_push (s_path s) (l_file l)) (s_names s))
  else match ipath_pop_until (s_path s) (l_file l) with
       | Ok p => Ok (mkScope (s_vars s) p (s_names s))
       | Panic => Panic
       | OutOfFuel => OutOfFuel
       end.

(* onRedundant(redundant, because); IsRelevant is nil or true outside mk/ *)
Definition on_redundant (redundant because : nat * assign) : verdict :=
  mkVerdict (fst redundant) (fst because)
    (if op_eqb (a_op (snd redundant)) OpDefault then KNoEffect else KRedundant).

Definition on_overwrite (overwritten by_ : nat * assign) : verdict :=
  mkVerdict (fst overwritten) (fst by_) KOverwritten.

(* the loop over prevWrites in handleVarassign: has '!=' been applied since the
   last '=' or ':=' *)
Definition after_shell (ws : list (nat * assign)) : bool :=
  fold_left (fun acc w => match a_op (snd w) with
                          | OpShell => true
                          | OpAssign | OpEval => false
                          | _ => acc
                          end) ws false.

(* handleVarassign; [depth_pos] is ind.Depth("") > 0 *)
Definition handle_varassign (s : scope) (idx : nat) (a : assign) (depth_pos : bool)
  : result (scope * list verdict) :=
  let varname := a_var a in
  let info := s_vars s varname in
  let me := (idx, a) in
  (* the deferred function: Write, lastAction = 2, access *)
  let finish (vs : list verdict) : result (scope * list verdict) :=
    let info' := mkInfo (var_write (vi_var info) idx a depth_pos)
                        (vi_paths info ++ [s_path s]) AWrite in
    Ok (mkScope (upd (s_vars s) varname info') (s_path s) (set_add (s_names s) varname), vs) in
  let prev_writes := v_writes (vi_var info) in
  match rev prev_writes with
  | [] => finish []
  | prev :: _ =>
    if v_cond (vi_var info) || depth_pos then finish [] else
    match vi_last info with
    | ARead => finish []
    | _ =>
      let value := render (a_val a) in
      let eff1 := if op_eqb (a_op a) OpEval && negb (has_make_vars (a_val a))
                  then OpAssign else a_op a in
      let eff2 := if op_eqb eff1 OpAssign && negb (after_shell prev_writes)
                        && str_eqb (v_value (vi_var info)) value
                  then OpDefault else eff1 in
      match eff2 with
      | OpAssign =>
          if included_by_or_equals_all (s_path s) (vi_paths info)
          then finish [on_overwrite prev me] else finish []
      | OpDefault =>
          if includes_or_equals_all (s_path s) (vi_paths info) then
            finish [on_redundant me prev]
          else if included_by_or_equals_all (s_path s) (vi_paths info) then
            if is_constant (vi_var info) then
              match constant_value (vi_var info) with
              | Panic => Panic
              | OutOfFuel => OutOfFuel
              | Ok cv =>
                  if str_eqb cv value
                     && (negb (op_eqb (a_op a) OpDefault) || Nat.eqb (length prev_writes) 1)
                  then finish [on_redundant prev me] else finish []
              end
            else finish []
          else finish []
      | OpAppend => finish []   (* checkAppendUnique: a different kind of note, only for "unique" list types *)
      | OpShell =>
          if included_by_or_equals_all (s_path s) (vi_paths info) then
            if is_constant (vi_var info) && negb (existsb (str_eqb varname) (uses (a_val a)))
            then finish [on_redundant prev me] else finish []
          else finish []
      | OpEval => finish []
      end
    end
  end.

(* s.get + info.vari.Read + lastAction = 1 + s.access *)
Definition read_one (s : scope) (w : var) : scope :=
  let info := s_vars s w in
  let info' := mkInfo (var_read (vi_var info)) (vi_paths info ++ [s_path s]) ARead in
  mkScope (upd (s_vars s) w info') (s_path s) (set_add (s_names s) w).

(* The variables that an eager assignment (':=', '!=') reads through other
   variables: everything reachable from the used variables along Var.Refs().
   The Go code walks this graph depth-first with a "seen" map; here the set is
   grown one step per round.  [fuel] rounds, then it must be closed. *)
Definition refs_of (s : scope) (w : var) : list var := v_refs (vi_var (s_vars s w)).
Definition closure_step (s : scope) (ws : list var) : list var :=
  set_add_all ws (flat_map (refs_of s) ws).
Fixpoint closure_rounds (fuel : nat) (s : scope) (ws : list var) : list var :=
  match fuel with O => ws | S f => closure_rounds f s (closure_step s ws) end.
Definition closure (fuel : nat) (s : scope) (ws : list var) : result (list var) :=
  let c := closure_rounds fuel s ws in
  if forallb (fun w => existsb (str_eqb w) c) (flat_map (refs_of s) c) then Ok c else OutOfFuel.

(* handleExpr for a variable assignment: every use is a read; for ':=' and '!='
   also every variable read indirectly.  (The order and the multiplicity of the
   reads differ from the Go code, the set of variables is the same; neither order
   nor multiplicity can be observed: Read is idempotent and the include paths are
   only ever tested with "for all".) *)
Definition handle_expr (s : scope) (a : assign) : result scope :=
  let direct := uses (a_val a) in
  let s1 := fold_left read_one direct s in
  match a_op a with
  | OpEval | OpShell =>
      match closure (length (s_names s1)) s1 (set_add_all [] direct) with
      | Ok c => Ok (fold_left read_one c s1)
      | Panic => Panic
      | OutOfFuel => OutOfFuel
      end
  | _ => Ok s1
  end.

Definition check_line (s : scope) (idx : nat) (l : line) : result (scope * list verdict) :=
  match update_include_path s l with
  | Panic => Panic
  | OutOfFuel => OutOfFuel
  | Ok s1 =>
    match l_body l with
    | None => Ok (s1, [])
    | Some a =>
      match handle_varassign s1 idx a false with
      | Panic => Panic
      | OutOfFuel => OutOfFuel
      | Ok (s2, vs) =>
          match handle_expr s2 a with
          | Ok s3 => Ok (s3, vs)
          | Panic => Panic
          | OutOfFuel => OutOfFuel
          end
      end
    end
  end.

(* RedundantScope.Check: diagnostics in the order they are emitted *)
Fixpoint check_from (s : scope) (idx : nat) (ls : list line) : result (list verdict) :=
  match ls with
  | [] => Ok []
  | l :: ls' =>
    match check_line s idx l with
    | Panic => Panic
    | OutOfFuel => OutOfFuel
    | Ok (s', vs) =>
      match check_from s' (S idx) ls' with
      | Panic => Panic
      | OutOfFuel => OutOfFuel
      | Ok rest => Ok (vs ++ rest)
      end
    end
  end.

Definition check (p : program) : result (list verdict) := check_from new_scope 0 p.
