(* Symbolic links in the save protocol (C05, C02): the save target F itself may be a
   symbolic link, and so may a file given on the command line.

   The file system is Model/FsProto.v's map  entry name -> (kind, bytes, mode)  in the
   lstat view.  An entry name is the identity of a directory entry: the directory part
   resolved, the final component NOT followed (the harness canonicalises the paths of a
   real run that way, so a path that runs through a symlinked directory is the entry in
   the real directory).  For an entry of kind KSymlink, f_data is the entry name the
   link refers to (the harness resolves the link text against the link's directory).

   What follows a final link and what does not (Linux):
     openat(O_CREAT|O_EXCL)          never follows, EEXIST on a link (also a dangling one)
     openat(O_CREAT|O_TRUNC)         follows; creates the file a dangling link names
     fchmodat / chmod                follows (ENOENT dangling, ELOOP after 40 links)
     stat                            follows;   lstat does not
     renameat, unlinkat              never follow: they act on the link itself
     write, close                    act on the inode the descriptor refers to

   Go code modelled (one definition per function, same case structure):
     v23/autofix.go  SaveAutofixChanges, loop body: filename.Stat() FOLLOWS     = save_one_l
     v23/pkglint.go  Pkglint.Check: dirent.Lstat(); checkMode: isReg;
                     checkExecutable: !mode.IsRegular() -> return; Perm()&0111 == 0 -> return;
                     fix.Custom: filename.Chmod(mode &^ 0111)                 = check_exec_l
     v23/logging.go  Logger.TechErrorf                                        = tech_error_l
   and two variants that are NOT the code (refuted in Proofs/FsLinks.v):
     save_through_link   a link as save target is written in place through the link
     check_exec_stat     the command-line argument is examined with Stat instead of Lstat

   No proofs in this file. *)
From PV Require Import Lib.Bytes Model.FsProto.
Open Scope N_scope.

(* ---------- following a final symbolic link ---------- *)

Inductive rres :=
| RFound (q : path) (f : file)   (* q is not a link: the entry the name denotes *)
| RDangling (q : path)           (* no entry q: the name at which O_CREAT would create *)
| RLoop.                         (* more than link_fuel links: ELOOP (distinct out-of-fuel result) *)

Fixpoint resolve (fuel : nat) (p : path) (m : fsmap) : rres :=
  match lookup p m with
  | None => RDangling p
  | Some f =>
    match f_kind f with
    | KSymlink => match fuel with O => RLoop | S n => resolve n (f_data f) m end
    | _ => RFound p f
    end
  end.

Definition link_fuel : nat := 40%nat.   (* MAXSYMLINKS *)

(* stat(2): the entry after following; None = the call fails (ENOENT, ELOOP) *)
Definition stat_follow (p : path) (m : fsmap) : option file :=
  match resolve link_fuel p m with RFound _ f => Some f | _ => None end.

(* ---------- the link-aware system calls ---------- *)

Definition lstep (s : state) (o : op) : state * option errno :=
  match o with
  | Chmod p mode =>
    match resolve link_fuel p (st_fs s) with
    | RFound q f => (mkstate (set q (mkfile (f_kind f) (f_data f) mode) (st_fs s)) (st_fds s) (st_umask s), None)
    | RDangling _ => (s, Some ENOENT)
    | RLoop => (s, Some ELOOP)
    end
  | Open fd p perm =>
    match resolve link_fuel p (st_fs s) with
    | RFound q old =>
      (mkstate (set q (mkfile (f_kind old) [] (f_mode old)) (st_fs s)) (fd_set fd (Some q) (st_fds s)) (st_umask s), None)
    | RDangling q =>
      (mkstate (set q (mkfile KReg [] (N.ldiff perm (st_umask s))) (st_fs s)) (fd_set fd (Some q) (st_fds s)) (st_umask s), None)
    | RLoop => (s, Some ELOOP)
    end
  | _ => step s o      (* OpenExcl, Write, Close, Rename, Unlink: no link is followed *)
  end.

Definition lexec (ops : list op) (s : state) : state :=
  fold_left (fun s o => fst (lstep s o)) ops s.

(* ---------- the running program ---------- *)

(* what happens to the process:
     PNone       nothing
     PFail k fl  the system call with index k fails with fl (FsProto.step_fault: its partial effect)
     PKill k n   the process is killed at system call k: calls 0..k-1 are performed, call k not at
                 all -- except that a write has transferred its first n bytes -- and nothing
                 afterwards has any effect.  The final state of a run under PKill k n is the
                 state of the disk at that crash point. *)
Inductive lplan := PNone | PFail (k : nat) (fl : fault) | PKill (k : nat) (n : nat).

Record lworld := mklw {
  lw_st : state;
  lw_count : nat;
  lw_plan : lplan;
  lw_trace : list (op * option errno);
  lw_stderr : list (errkind * path);
  lw_saved : bool
}.

Definition lw_next (w : lworld) (o : op) (s : state) (r : option errno) : lworld * option errno :=
  (mklw s (S (lw_count w)) (lw_plan w) (lw_trace w ++ [(o, r)]) (lw_stderr w) (lw_saved w), r).

Definition sys_l (o : op) (w : lworld) : lworld * option errno :=
  let normal := let (s', r) := lstep (lw_st w) o in lw_next w o s' r in
  match lw_plan w with
  | PNone => normal
  | PFail k fl =>
    if Nat.eqb k (lw_count w)
    then lw_next w o (step_fault (lw_st w) o fl) (Some (fl_errno fl))
    else normal
  | PKill k n =>
    if Nat.ltb (lw_count w) k then normal
    else if Nat.eqb (lw_count w) k
    then match o with
         | Write fd data => lw_next w o (fst (lstep (lw_st w) (Write fd (firstn n data)))) (Some EIO)
         | _ => lw_next w o (lw_st w) (Some EIO)
         end
    else lw_next w o (lw_st w) (Some EIO)          (* dead *)
  end.

Definition tech_error_l (k : errkind) (loc : path) (w : lworld) : lworld :=
  mklw (lw_st w) (lw_count w) (lw_plan w) (lw_trace w) (lw_stderr w ++ [(k, loc)]) (lw_saved w).

Definition set_saved_l (b : bool) (w : lworld) : lworld :=
  mklw (lw_st w) (lw_count w) (lw_plan w) (lw_trace w) (lw_stderr w) b.

(* SaveAutofixChanges, loop body, as in FsProto.save_one -- but filename.Stat() follows a
   link, and the system calls are the link-aware ones *)
Definition save_one_l (f : path) (new : str) (w : lworld) : lworld :=
  let tmp := tmp_name f in
  match sys_l (OpenExcl 0 tmp 438 (* 0666 *)) (set_saved_l false w) with
  | (w1, Some _) => tech_error_l CannotWrite tmp w1                       (* continue *)
  | (w1, None) =>
    let (w2, err) := sys_l (Write 0 new) w1 in
    let (w3, err1) := sys_l (Close 0) w2 in
    let err' := match err with Some e => Some e | None => err1 end in
    let (w4, err'') :=
      match err', stat_follow f (st_fs (lw_st w3)) with
      | None, Some old => sys_l (Chmod tmp (f_mode old)) w3
      | _, _ => (w3, err')
      end in
    match err'' with
    | Some _ => fst (sys_l (Unlink tmp) (tech_error_l CannotWrite tmp w4))  (* continue *)
    | None =>
      match sys_l (Rename tmp f) w4 with
      | (w5, Some _) => fst (sys_l (Unlink tmp) (tech_error_l CannotOverwrite tmp w5))  (* continue *)
      | (w5, None) => set_saved_l true w5                                 (* autofixed = true *)
      end
    end
  end.

Definition chmod_fix_l (f : path) (mode : N) (w : lworld) : lworld :=
  match sys_l (Chmod f (N.ldiff mode 73 (* 0111 *))) w with
  | (w1, Some _) => tech_error_l CannotClearExec f w1
  | (w1, None) => w1
  end.

(* Pkglint.Check(dirent) for a file argument, as far as the mode fix is concerned:
     st, err := dirent.Lstat(); if err != nil { "No such file"; return }
     checkMode: isReg := mode.IsRegular(); if !isDir && !isReg { "No such file"; return }
     checkExecutable: if !mode.IsRegular() { return }; if mode.Perm()&0111 == 0 { return }
                      [isCommitted(filename): outside the model -- the action is only listed for files not in CVS/Entries]
                      fix.Custom: filename.Chmod(mode &^ 0111) *)
Definition check_exec_with (st : path -> fsmap -> option file) (f : path) (w : lworld) : lworld :=
  match st f (st_fs (lw_st w)) with
  | None => w
  | Some e =>
    match f_kind e with
    | KReg => if N.land (f_mode e) 73 =? 0 then w else chmod_fix_l f (f_mode e) w
    | _ => w
    end
  end.

Definition check_exec_l : path -> lworld -> lworld := check_exec_with lookup.          (* Lstat: the code *)
Definition check_exec_stat : path -> lworld -> lworld := check_exec_with stat_follow.   (* Stat: NOT the code *)

(* os.WriteFile through the link-aware calls *)
Definition write_file_l (name : path) (data : str) (perm : N) (w : lworld) : lworld * option errno :=
  match sys_l (Open 0 name perm) w with
  | (w1, Some e) => (w1, Some e)
  | (w1, None) =>
    let (w2, err) := sys_l (Write 0 data) w1 in
    let (w3, err1) := sys_l (Close 0) w2 in
    (w3, match err with Some e => Some e | None => err1 end)
  end.

(* NOT the code: a link as save target is written in place through the link *)
Definition save_through_link (f : path) (new : str) (w : lworld) : lworld :=
  match lookup f (st_fs (lw_st w)) with
  | Some e =>
    match f_kind e with
    | KSymlink =>
      match write_file_l f new 438 (set_saved_l false w) with
      | (w1, Some _) => tech_error_l CannotWrite f w1
      | (w1, None) => set_saved_l true w1
      end
    | _ => save_one_l f new w
    end
  | None => save_one_l f new w
  end.

Inductive laction :=
| LSave (f : path) (new : str)
| LCheckExec (f : path)
| LIfSaved (b : bool) (f : path) (new : str).

Definition lrun_action (w : lworld) (a : laction) : lworld :=
  match a with
  | LSave f new => save_one_l f new w
  | LCheckExec f => check_exec_l f w
  | LIfSaved b f new => if Bool.eqb (lw_saved w) b then save_one_l f new w else w
  end.

Definition lrun (prog : list laction) (w : lworld) : lworld := fold_left lrun_action prog w.

Definition init_lworld (s : state) (plan : lplan) : lworld := mklw s 0 plan [] [] false.

(* the entry names a run is entitled to change: the files it saves (the entry F itself, never
   what a link F refers to), their temporary names, and the files whose mode it fixes *)
Fixpoint l_saved_paths (prog : list laction) : list path :=
  match prog with
  | [] => []
  | LSave f _ :: rest => f :: l_saved_paths rest
  | LCheckExec _ :: rest => l_saved_paths rest
  | LIfSaved _ f _ :: rest => f :: l_saved_paths rest
  end.

Fixpoint l_exec_paths (prog : list laction) : list path :=
  match prog with
  | [] => []
  | LCheckExec f :: rest => f :: l_exec_paths rest
  | _ :: rest => l_exec_paths rest
  end.

Definition l_named (prog : list laction) (q : path) : Prop :=
  In q (l_saved_paths prog) \/ In q (map tmp_name (l_saved_paths prog)) \/ In q (l_exec_paths prog).

Definition l_namedb (prog : list laction) (q : path) : bool :=
  existsb (str_eqb q) (l_saved_paths prog) || existsb (str_eqb q) (map tmp_name (l_saved_paths prog))
  || existsb (str_eqb q) (l_exec_paths prog).

(* executable judge for snapshots of real runs (complete, killed or faulty): the first entry
   name, not named by the run, whose entry differs from the initial one; in particular the
   target of every link *)
Fixpoint l_unnamed_changed_in (entries : fsmap) (init : fsmap) (prog : list laction) (cur : fsmap) : option path :=
  match entries with
  | [] => None
  | (p, _) :: rest =>
    let same := match lookup p init, lookup p cur with
                | None, None => true
                | Some x, Some y =>
                  match f_kind x, f_kind y with
                  | KReg, KReg | KDir, KDir | KSymlink, KSymlink => str_eqb (f_data x) (f_data y) && (f_mode x =? f_mode y)
                  | _, _ => false
                  end
                | _, _ => false
                end in
    if l_namedb prog p || same then l_unnamed_changed_in rest init prog cur else Some p
  end.

Definition l_unnamed_changed (init : fsmap) (prog : list laction) (cur : fsmap) : option path :=
  match l_unnamed_changed_in init init prog cur with
  | Some p => Some p
  | None => l_unnamed_changed_in cur init prog cur
  end.
