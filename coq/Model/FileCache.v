(* Model of the file cache of pkglint and of everything that can make it stale:
     /repo/v23/util.go    FileCache: NewFileCache, Put, removeOldEntries, Get, Evict, key
     /repo/v23/files.go   Load
     /repo/v23/line.go    Line, Line.Autofix
     /repo/v23/autofix.go NewAutofix, ReplaceAt, ReplaceAfter, InsertAbove, InsertBelow,
                          Delete, Apply (the `modified` flag only), SaveAutofixChanges
   One Gallina definition per Go function, same case structure.  No proofs here.

   The heap is explicit: Line objects live at addresses (positions of st_heap);
   a *Lines object is the list of the addresses of its lines.  FileCache.Put
   stores the caller's *Lines, so a cache entry and the first view of a file
   hold the SAME addresses; FileCache.Get allocates new Line objects but reads
   lineno, Text and raw of the cached objects at the time of the Get.
   RawLine.orignl is never assigned after construction, so raw lines are values.

   I/O errors while saving are an explicit argument of the save operation: the
   list `fail` of the files for which writing the temporary file or the rename
   fails (pre-existing *.pkglint.tmp, unwritable directory, full disk): such a
   file is evicted like every other changed file, but the disk keeps its content.

   Not modelled (assumptions, see docs/C20.md): the Logger output of Apply, --only
   (Autofix.skip() = false), int overflow of `count`,
   strings.Count on non-ASCII text with an empty pattern. *)
From PV Require Import Lib.Bytes.
Open Scope N_scope.

(* ---------- results ---------- *)

Inductive stop := PanicIndex | PanicAssert | Fatal.
(* PanicIndex: Go index out of range; PanicAssert: assert(...) failed;
   Fatal: Logger.TechFatalf (Load with MustSucceed) *)

Inductive res (A : Type) : Type :=
| Ok (a : A)
| Stop (w : stop).
Arguments Ok {A} a.
Arguments Stop {A} w.

Definition bind {A B} (r : res A) (f : A -> res B) : res B :=
  match r with Ok a => f a | Stop w => Stop w end.

(* ---------- lists as Go slices / maps ---------- *)

Fixpoint upd {A} (n : nat) (x : A) (l : list A) : list A :=
  match l, n with
  | [], _ => []
  | _ :: t, O => x :: t
  | h :: t, S n' => h :: upd n' x t
  end.

(* map[key]value with unique keys, as an association list *)
Fixpoint map_get {V} (k : N) (m : list (N * V)) : option V :=
  match m with
  | [] => None
  | (k', v) :: t => if k' =? k then Some v else map_get k t
  end.
Fixpoint map_del {V} (k : N) (m : list (N * V)) : list (N * V) :=
  match m with
  | [] => []
  | (k', v) :: t => if k' =? k then map_del k t else (k', v) :: map_del k t
  end.
Definition map_set {V} (k : N) (v : V) (m : list (N * V)) : list (N * V) :=
  (k, v) :: map_del k m.

(* ---------- strings: strings.Index, LastIndex, Count, replaceOnce ---------- *)

Fixpoint index_of (p s : str) : option nat :=
  if has_prefix p s then Some O else
  match s with
  | [] => None
  | _ :: s' => option_map S (index_of p s')
  end.

Fixpoint last_index_of (p s : str) : option nat :=
  match s with
  | [] => if has_prefix p [] then Some O else None
  | _ :: s' =>
    match last_index_of p s' with
    | Some i => Some (S i)
    | None => if has_prefix p s then Some O else None
    end
  end.

(* strings.Count for a non-empty pattern: non-overlapping occurrences, left to right *)
Fixpoint count_from (p s : str) (skip : nat) : nat :=
  match s with
  | [] => O
  | _ :: s' =>
    match skip with
    | S k => count_from p s' k
    | O => if has_prefix p s then S (count_from p s' (length p - 1)) else count_from p s' O
    end
  end.
Definition count_str (p s : str) : nat :=
  match p with
  | [] => S (length s)          (* ASCII: utf8.RuneCountInString(s) + 1 *)
  | _ => count_from p s O
  end.

(* util.go: replaceOnce *)
Definition replace_once (s from to : str) : bool * str :=
  match index_of from s, last_index_of from s with
  | Some i, Some j =>
    if Nat.eqb i j then (true, firstn i s ++ to ++ skipn (i + length from) s) else (false, s)
  | _, _ => (false, s)
  end.

(* ---------- file names, options, modes ---------- *)

(* A CurrPath is (file, spelling): two spellings of the same file ("a.mk",
   "./a.mk", "x/../a.mk") have the same key.  key = filename.Clean().String(). *)
Definition fname : Type := N * N.
Definition key (fn : fname) : N := fst fn.
Definition fname_eqb (a b : fname) : bool := (fst a =? fst b) && (snd a =? snd b).

(* LoadOptions bits *)
Definition MustSucceed : N := 0.
Definition NotEmpty : N := 1.
Definition Makefile : N := 2.
Definition LogErrors : N := 3.
Definition has_opt (o : N) (bit : N) : bool := N.testbit o bit.

Inductive mode := ModeDefault | ModeShowAutofix | ModeAutofix.
Definition opt_autofix (m : mode) : bool := match m with ModeAutofix => true | _ => false end.
(* Logger.IsAutofix: Opts.Autofix || Opts.ShowAutofix *)
Definition is_autofix (m : mode) : bool := match m with ModeDefault => false | _ => true end.

(* ---------- Line objects ---------- *)

Record fixrec := mkFix {
  fx_above : list str;
  fx_texts : list str;
  fx_below : list str;
  fx_modified : bool
}.

Record line := mkLine {
  ln_file : fname;
  ln_lineno : N;
  ln_text : str;
  ln_raw : list str;           (* orignl of each raw line, including "\n" *)
  ln_fix : option fixrec
}.

Definition dummy_line : line := mkLine (0, 0) 0 [] [] None.

(* what convertToLogicalLines computes for one logical line *)
Definition lval : Type := N * str * list str.

(* NewLineMulti(filename, lineno, text, raw) *)
Definition new_line (fn : fname) (v : lval) : line :=
  let '(no, text, raw) := v in mkLine fn no text raw None.

(* ---------- FileCache ---------- *)

Record entry := mkEntry {
  e_count : N;
  e_key : N;
  e_opts : N;
  e_lines : list nat           (* the *Lines object: addresses of its Line objects *)
}.

(* c_store: the fileCacheEntry objects (an entry id is a pointer);
   c_table: FileCache.table; c_map: FileCache.mapping; c_cap: cap(table) *)
Record cache := mkCache {
  c_store : list entry;
  c_table : list nat;
  c_map : list (N * nat);
  c_cap : nat;
  c_hits : N;
  c_misses : N
}.

Definition new_file_cache (size : nat) : cache := mkCache [] [] [] size 0 0.

Definition dummy_entry : entry := mkEntry 0 0 0 [].
Definition entry_at (st : list entry) (eid : nat) : entry := nth eid st dummy_entry.
Definition count_of (st : list entry) (eid : nat) : N := e_count (entry_at st eid).

(* sort.Slice(c.table, func(i, j) bool { return table[j].count < table[i].count }):
   descending by count; sort.Slice is not stable, any sorted permutation may
   come out.  The model takes the insertion sort; Proofs/FileCache.v shows that
   what removeOldEntries does afterwards does not depend on the choice. *)
Fixpoint insert_desc (st : list entry) (x : nat) (l : list nat) : list nat :=
  match l with
  | [] => [x]
  | y :: t => if count_of st y <? count_of st x then x :: l else y :: insert_desc st x t
  end.
Definition sort_desc (st : list entry) (l : list nat) : list nat :=
  fold_right (insert_desc st) [] l.

(* the loop `for newLen > 0 && table[newLen-1].count == minCount`, on the reversed table *)
Fixpoint strip_min (st : list entry) (minc : N) (rt : list nat) (m : list (N * nat))
  : list nat * list (N * nat) :=
  match rt with
  | [] => ([], m)
  | x :: t =>
    if count_of st x =? minc
    then strip_min st minc t (map_del (e_key (entry_at st x)) m)
    else (rt, m)
  end.

Definition halve_entry (e : entry) : entry :=
  mkEntry (e_count e / 2) (e_key e) (e_opts e) (e_lines e).
Definition halve_all (st : list entry) (tbl : list nat) : list entry :=
  fold_left (fun s x => upd x (halve_entry (entry_at s x)) s) tbl st.

Definition remove_old_entries_sorted (c : cache) (sorted : list nat) : res cache :=
  match rev sorted with
  | [] => Stop PanicIndex                   (* c.table[len(c.table)-1] *)
  | lst :: _ =>
    let minc := count_of (c_store c) lst in
    let '(rkeep, m') := strip_min (c_store c) minc (rev sorted) (c_map c) in
    let keep := rev rkeep in
    Ok (mkCache (halve_all (c_store c) keep) keep m' (c_cap c) (c_hits c) (c_misses c))
  end.

Definition remove_old_entries (c : cache) : res cache :=
  remove_old_entries_sorted c (sort_desc (c_store c) (c_table c)).

(* FileCache.Put.  Since len(table) <= cap(table) always (capacity_respected),
   `append` never reallocates and cap(table) is constant. *)
Definition put (c : cache) (k o : N) (ls : list nat) : res cache :=
  match map_get k (c_map c) with
  | Some eid =>
    Ok (mkCache (upd eid (mkEntry 1 k o ls) (c_store c)) (c_table c) (c_map c)
                (c_cap c) (c_hits c) (c_misses c))
  | None =>
    bind (if Nat.eqb (length (c_table c)) (c_cap c) then remove_old_entries c else Ok c)
      (fun c1 =>
         let eid := length (c_store c1) in
         Ok (mkCache (c_store c1 ++ [mkEntry 1 k o ls]) (c_table c1 ++ [eid])
                     (map_set k eid (c_map c1)) (c_cap c1) (c_hits c1) (c_misses c1)))
  end.

Definition heap := list line.
Definition line_at (h : heap) (a : nat) : line := nth a h dummy_line.

(* FileCache.Get: on a hit, count++ and fresh Line objects that copy lineno and
   Text and share raw; they are appended to the heap. *)
Definition get (c : cache) (h : heap) (fn : fname) (o : N) : cache * heap * option (list nat) :=
  match map_get (key fn) (c_map c) with
  | Some eid =>
    let e := entry_at (c_store c) eid in
    if e_opts e =? o then
      let e' := mkEntry (e_count e + 1) (e_key e) (e_opts e) (e_lines e) in
      let fresh := map (fun a => let l := line_at h a in
                                 mkLine fn (ln_lineno l) (ln_text l) (ln_raw l) None)
                       (e_lines e) in
      (mkCache (upd eid e' (c_store c)) (c_table c) (c_map c) (c_cap c) (c_hits c + 1) (c_misses c),
       h ++ fresh,
       Some (seq (length h) (length fresh)))
    else
      (mkCache (c_store c) (c_table c) (c_map c) (c_cap c) (c_hits c) (c_misses c + 1), h, None)
  | None =>
    (mkCache (c_store c) (c_table c) (c_map c) (c_cap c) (c_hits c) (c_misses c + 1), h, None)
  end.

Fixpoint find_idx (x : nat) (l : list nat) : option nat :=
  match l with
  | [] => None
  | y :: t => if Nat.eqb y x then Some O else option_map S (find_idx x t)
  end.

(* table[i] = table[len-1]; table = table[:len-1] *)
Definition swap_remove (x : nat) (l : list nat) : list nat :=
  match find_idx x l with
  | None => l
  | Some i => removelast (upd i (last l O) l)
  end.

(* FileCache.Evict *)
Definition evict (c : cache) (k : N) : cache :=
  match map_get k (c_map c) with
  | None => c
  | Some eid =>
    mkCache (c_store c) (swap_remove eid (c_table c)) (map_del k (c_map c))
            (c_cap c) (c_hits c) (c_misses c)
  end.

(* ---------- the run state ---------- *)

(* st_pending is a ghost field (nothing in the Go code): the views through which
   a fix was made and which were not passed to SaveAutofixChanges since. *)
Record state := mkState {
  st_cache : cache;
  st_heap : heap;
  st_views : list (fname * list nat);     (* every *Lines handed out by Load, oldest first *)
  st_disk : list (N * str);               (* key -> content; absent = unreadable *)
  st_pending : list nat
}.

Definition init_state (cap : nat) (disk : list (N * str)) : state :=
  mkState (new_file_cache cap) [] [] disk [].

Section WithConvert.

(* convertToLogicalLines(filename, rawText, options&Makefile != 0), modelled elsewhere *)
Variable convert : str -> N -> list lval.
(* filename.HasSuffixText(".mk"), as a predicate on keys *)
Variable is_mk : N -> bool.

Definition is_empty (s : str) : bool := match s with [] => true | _ => false end.

(* files.go: Load.  Returns the id of the new view, or None for Go's nil. *)
Definition load (s : state) (fn : fname) (o : N) : res (state * option nat) :=
  let '(c1, h1, r) := get (st_cache s) (st_heap s) fn o in
  match r with
  | Some addrs =>
    Ok (mkState c1 h1 (st_views s ++ [(fn, addrs)]) (st_disk s) (st_pending s),
        Some (length (st_views s)))
  | None =>
    match map_get (key fn) (st_disk s) with
    | None =>
      if has_opt o MustSucceed then Stop Fatal
      else Ok (mkState c1 h1 (st_views s) (st_disk s) (st_pending s), None)
    | Some raw =>
      if is_empty raw && has_opt o NotEmpty then
        if has_opt o MustSucceed then Stop Fatal
        else Ok (mkState c1 h1 (st_views s) (st_disk s) (st_pending s), None)
      else
        let vals := convert raw o in
        let addrs := seq (length h1) (length vals) in
        let h2 := h1 ++ map (new_line fn) vals in
        bind (if is_mk (key fn) then put c1 (key fn) o addrs else Ok c1)
          (fun c2 =>
             Ok (mkState c2 h2 (st_views s ++ [(fn, addrs)]) (st_disk s) (st_pending s),
                 Some (length (st_views s))))
    end
  end.

End WithConvert.

(* ---------- Autofix ---------- *)

Inductive fixop :=
| FReplaceAt (ri ti : nat) (from to : str)
| FReplaceAfter (prefix from to : str)
| FInsertAbove (t : str)
| FInsertBelow (t : str)
| FDelete.

Definition nl : str := [10].
Definition is_nil (s : str) : bool := match s with [] => true | _ => false end.
Definition ends_with_nl (s : str) : bool := match rev s with c :: _ => c =? 10 | [] => false end.

(* autofix.go: NewAutofix *)
Definition new_autofix (l : line) : fixrec := mkFix [] (ln_raw l) [] false.
(* line.go: Line.Autofix *)
Definition autofix_of (l : line) : fixrec :=
  match ln_fix l with Some f => f | None => new_autofix l end.

(* the loop of ReplaceAfter over fix.texts: the first text in which replaceOnce succeeds *)
Fixpoint replace_first (texts : list str) (from to : str) : option (nat * str) :=
  match texts with
  | [] => None
  | t :: rest =>
    let '(ok, r) := replace_once t from to in
    if ok then Some (O, r)
    else match replace_first rest from to with
         | Some (i, r') => Some (S i, r')
         | None => None
         end
  end.

(* One fix operation.  Result: new Text, new fix record (without `modified`),
   and whether an action was described (len(fix.actions) > 0 at Apply). *)
Definition apply_fixop (md : mode) (text : str) (fx : fixrec) (op : fixop)
  : res (str * fixrec * bool) :=
  match op with
  | FReplaceAt ri ti from to =>
    if str_eqb from to then Stop PanicAssert else          (* assert(from != to) *)
    match nth_error (fx_texts fx) ri with
    | None => Stop PanicIndex                              (* fix.texts[rawIndex] *)
    | Some t =>
      if negb (Nat.ltb ti (length t)) then Stop PanicAssert        (* assert(textIndex < len(text)) *)
      else if negb (has_prefix from (skipn ti t)) then Stop PanicAssert
      else
        let replaced := firstn ti t ++ to ++ skipn (ti + length from) t in
        Ok (snd (replace_once text from to),
            mkFix (fx_above fx) (upd ri replaced (fx_texts fx)) (fx_below fx) (fx_modified fx),
            true)
    end
  | FReplaceAfter prefix from to =>
    let pf := prefix ++ from in
    let pt := prefix ++ to in
    let n := fold_left (fun acc t => (acc + count_str pf t)%nat) (fx_texts fx) O in
    if negb (Nat.eqb n 1) then Ok (text, fx, false)
    else match replace_first (fx_texts fx) pf pt with
         | None => Ok (text, fx, false)
         | Some (ri, replaced) =>
           if is_autofix md then
             Ok (snd (replace_once text pf pt),
                 mkFix (fx_above fx) (upd ri replaced (fx_texts fx)) (fx_below fx) (fx_modified fx),
                 true)
           else Ok (text, fx, true)
         end
  | FInsertAbove t =>
    Ok (text, mkFix (fx_above fx ++ [t ++ nl]) (fx_texts fx) (fx_below fx) (fx_modified fx), true)
  | FInsertBelow t =>
    (* an unterminated last line gets its newline first, once *)
    let texts :=
      match rev (fx_texts fx), fx_below fx with
      | lst :: before, [] =>
        if negb (is_nil lst) && negb (ends_with_nl lst) then rev ((lst ++ nl) :: before)
        else fx_texts fx
      | _, _ => fx_texts fx
      end in
    Ok (text, mkFix (fx_above fx) texts (fx_below fx ++ [t ++ nl]) (fx_modified fx), true)
  | FDelete =>
    Ok (text, mkFix (fx_above fx) (map (fun _ => []) (fx_texts fx)) (fx_below fx) (fx_modified fx),
        negb (Nat.eqb (length (fx_texts fx)) 0))
  end.

(* fix := line.Autofix(); fix.Notef(...); <op>; fix.Apply() on the Line object l.
   Apply's reset(): modified = true when an action was described. *)
Definition fix_line (md : mode) (l : line) (op : fixop) : res (line * bool) :=
  let fx := autofix_of l in
  if ln_lineno l <? 1 then Stop PanicAssert else          (* assertRealLine *)
  bind (apply_fixop md (ln_text l) fx op)
    (fun '(text', fx', acted) =>
       Ok (mkLine (ln_file l) (ln_lineno l) text' (ln_raw l)
                  (Some (mkFix (fx_above fx') (fx_texts fx') (fx_below fx')
                               (fx_modified fx' || acted))),
           acted)).

(* ---------- SaveAutofixChanges ---------- *)

Definition is_modified (l : line) : bool :=
  match ln_fix l with Some f => fx_modified f | None => false end.

Definition line_chunks (l : line) : list str :=
  match ln_fix l with
  | Some f => fx_above f ++ fx_texts f ++ fx_below f
  | None => ln_raw l
  end.

Fixpoint nodup_fname (l : list fname) : list fname :=
  match l with
  | [] => []
  | x :: t => if existsb (fname_eqb x) t then nodup_fname t else x :: nodup_fname t
  end.

Definition file_content (ls : list line) (fn : fname) : str :=
  concat (concat (map line_chunks (filter (fun l => fname_eqb (ln_file l) fn) ls))).

(* Returns the new cache and disk and the list of rewritten files.
   fail: the keys of the files whose rewrite fails (OpenFile(O_EXCL) / WriteString /
   Close / Chmod / Rename returns an error): the loop body is left with `continue`
   AFTER G.fileCache.Evict(filename), the file keeps its content. *)
Definition key_in (k : N) (l : list N) : bool := existsb (N.eqb k) l.
Definition save_lines (md : mode) (fail : list N) (c : cache) (disk : list (N * str)) (ls : list line)
  : cache * list (N * str) * list (N * str) :=
  if negb (opt_autofix md) then
    (* fast lane: evict the file of every line that carries a modified fix *)
    (fold_left (fun c l => if is_modified l then evict c (key (ln_file l)) else c) ls c, disk, [])
  else
    let changed := nodup_fname (map ln_file (filter is_modified ls)) in
    fold_left (fun '(c, d, w) fn =>
                 let content := file_content ls fn in
                 if key_in (key fn) fail
                 then (evict c (key fn), d, w)
                 else (evict c (key fn), map_set (key fn) content d, w ++ [(key fn, content)]))
              changed (c, disk, []).

(* ---------- operations of a run and what they show ---------- *)

Inductive op :=
| OLoad (fn : fname) (o : N)               (* Load(fn, o) *)
| OFix (v : nat) (i : nat) (f : fixop)     (* one fix transaction on line i of view v *)
| OSave (v : nat) (fail : list N)          (* SaveAutofixChanges(view v); writing the files in `fail` fails *)
| OModify (k : N) (c : option str).        (* write/remove the file, then G.fileCache.Evict *)

(* lineno, Text, raw, fix attached *)
Definition lobs : Type := N * str * list str * bool.
Definition obs_line (l : line) : lobs :=
  (ln_lineno l, ln_text l, ln_raw l, match ln_fix l with Some _ => true | None => false end).

Inductive obs :=
| ObsLoad (r : option (list lobs))
| ObsFix (acted : bool)
| ObsSave (written : list (N * str))
| ObsModify
| ObsBad.          (* the operation names a view or line that does not exist; nothing happens *)

Definition view_lines (s : state) (v : nat) : option (fname * list line) :=
  match nth_error (st_views s) v with
  | Some (fn, addrs) => Some (fn, map (line_at (st_heap s)) addrs)
  | None => None
  end.

Definition remove_nat (x : nat) (l : list nat) : list nat :=
  filter (fun y => negb (Nat.eqb y x)) l.

Section WithConvert2.
Variable convert : str -> N -> list lval.
Variable is_mk : N -> bool.

Definition step (md : mode) (s : state) (o : op) : res (state * obs) :=
  match o with
  | OLoad fn opts =>
    bind (load convert is_mk s fn opts)
      (fun '(s', r) =>
         Ok (s', ObsLoad (match r with
                          | Some v => option_map (fun p => map obs_line (snd p)) (view_lines s' v)
                          | None => None
                          end)))
  | OFix v i f =>
    match nth_error (st_views s) v with
    | None => Ok (s, ObsBad)
    | Some (_, addrs) =>
      match nth_error addrs i with
      | None => Ok (s, ObsBad)
      | Some a =>
        bind (fix_line md (line_at (st_heap s) a) f)
          (fun '(l', acted) =>
             Ok (mkState (st_cache s) (upd a l' (st_heap s)) (st_views s) (st_disk s)
                         (v :: remove_nat v (st_pending s)),
                 ObsFix acted))
      end
    end
  | OSave v fail =>
    match view_lines s v with
    | None => Ok (s, ObsBad)
    | Some (_, ls) =>
      let '(c', d', w) := save_lines md fail (st_cache s) (st_disk s) ls in
      Ok (mkState c' (st_heap s) (st_views s) d' (remove_nat v (st_pending s)), ObsSave w)
    end
  | OModify k c =>
    let d' := match c with Some x => map_set k x (st_disk s) | None => map_del k (st_disk s) end in
    Ok (mkState (evict (st_cache s) k) (st_heap s) (st_views s) d' (st_pending s), ObsModify)
  end.

(* the whole history; stops at the first panic / fatal *)
Fixpoint run (md : mode) (s : state) (h : list op) : state * list obs * option stop :=
  match h with
  | [] => (s, [], None)
  | o :: t =>
    match step md s o with
    | Stop w => (s, [], Some w)
    | Ok (s', ob) =>
      let '(s'', obs, w) := run md s' t in (s'', ob :: obs, w)
    end
  end.

End WithConvert2.

(* The protocol guard, as a ghost check: "each fixed view is saved before the
   file is loaded again". *)
Definition view_key (s : state) (v : nat) : option N :=
  match nth_error (st_views s) v with Some (fn, _) => Some (key fn) | None => None end.

Definition guard_step (s : state) (o : op) : bool :=
  match o with
  | OLoad fn _ =>
    forallb (fun v => match view_key s v with
                      | Some k => negb (k =? key fn)
                      | None => true
                      end) (st_pending s)
  | _ => true
  end.

(* ---------- the non-Makefile branch of convertToLogicalLines ----------
   strings.SplitAfter(rawText, "\n") without empty pieces; Text = TrimSuffix(raw, "\n");
   line numbers from 1.  Used to run the model (extraction, refutation witness);
   the theorems hold for every convert. *)
Fixpoint split_after_nl (s : str) (cur : str) : list str :=
  match s with
  | [] => match cur with [] => [] | _ => [rev cur] end
  | c :: s' => if c =? 10 then rev (c :: cur) :: split_after_nl s' [] else split_after_nl s' (c :: cur)
  end.
Definition trim_nl (s : str) : str :=
  match rev s with
  | c :: r => if c =? 10 then rev r else s
  | [] => s
  end.
Fixpoint number_from (n : N) (raws : list str) : list lval :=
  match raws with
  | [] => []
  | r :: t => (n, trim_nl r, [r]) :: number_from (n + 1) t
  end.
Definition convert_plain (raw : str) (o : N) : list lval := number_from 1 (split_after_nl raw []).
