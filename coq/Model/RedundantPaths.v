(* RedundantScope on lines that carry their file NAME, as the Go code sees them.

   Model/Redundant.v labels every line with a file id (a number).  In the Go
   code the label is mkline.Filename(), a CurrPath, i.e. a string: the path
   under which the loader (Package.loadIncluded: dirname.JoinNoClean(included
   file as written)) read the file.  includePath.push / popUntil / includes /
   equals compare these strings with ==.

   [intern_by eqp p] replaces every path by the index of the first line of the
   program whose path is related to it by [eqp]; with eqp = byte-wise equality
   this is exactly "compare the strings with ==" (two lines get the same number
   iff their paths are the same string), hence
      check_spelled = RedundantScope.Check on path-labelled lines.
   With eqp = "denote the same file" (Spec/SpellingIndep.v) it is the analysis
   on denotations.  No proofs here. *)
From PV Require Import Lib.Bytes Model.Redundant.

Record pline := mkPLine { pl_path : str; pl_lineno : N; pl_body : option assign }.
Definition pprogram := list pline.

(* index of the first key related to k; length keys if there is none *)
Fixpoint first_index (eqp : str -> str -> bool) (k : str) (keys : list str) : nat :=
  match keys with
  | [] => O
  | k' :: r => if eqp k' k then O else S (first_index eqp k r)
  end.

Definition intern_line (eqp : str -> str -> bool) (keys : list str) (l : pline) : line :=
  mkLine (N.of_nat (first_index eqp (pl_path l) keys)) (pl_lineno l) (pl_body l).

Definition intern_by (eqp : str -> str -> bool) (p : pprogram) : program :=
  map (intern_line eqp (map pl_path p)) p.

(* the Go code: CurrPath == CurrPath *)
Definition check_spelled (p : pprogram) : result (list verdict) :=
  check (intern_by str_eqb p).
