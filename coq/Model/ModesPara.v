(* A paragraph-level check on top of the mode machine (Model/Modes.v), shaped as
   VaralignBlock (varalignblock.go) is used by MkLines.checkLine / checkAll:

     for each line of the paragraph:   varalign.Process(mkline)      -- remembers the split of the raw lines
                                       substContext.Process(mkline), the rest of checkLine
                                                                      -- other checkers, may fix the line
     at the end of the paragraph:      varalign.Finish()              -- compares, then realigns

   `Process` stores varalignParts per raw line; `VaralignSplitter.split` is
   lossless (parts.String() = the raw text, corresponded by C15), so what is
   remembered is the list of raw texts (Autofix.texts) of the line at that
   moment.  `Finish`:

     for every remembered raw line:
         if strings.TrimSuffix(fix.texts[rawIndex], "\n") != info.String() { *va = VaralignBlock{}; return }
     newWidth := va.optimalWidth(); for ... { mkinfo.realign(newWidth) }

   optimalWidth/realign read only the remembered parts: the notes they produce
   are a function `notes` of what was remembered (Model/Varalign.v has them in
   full; here they are a parameter).  The texts are compared with their newline
   (no operation used between Process and Finish adds or removes the final
   newline of a raw line, except InsertBelow on an unterminated last line of a
   file).  No proofs here. *)
From PV Require Import Lib.Bytes Model.Modes.
Open Scope N_scope.

(* what Process has remembered: line index, Autofix.texts at that moment *)
Definition snap := list (nat * list str).

Fixpoint texts_eqb (a b : list str) : bool :=
  match a, b with
  | [], [] => true
  | x :: a', y :: b' => str_eqb x y && texts_eqb a' b'
  | _, _ => false
  end.

(* the loop at the top of Finish: has another fix changed a line since it was split? *)
Definition unchanged (ls : list lstate) (sn : snap) : bool :=
  forallb (fun e => match nth_error ls (fst e) with
                    | Some l => texts_eqb (l_texts l) (snd e)
                    | None => false
                    end) sn.

(* VaralignBlock.Finish as coded: a changed line => the block is left to the next run *)
Definition para_finish (notes : snap -> list event) (sn : snap) : check :=
  fun ls => if unchanged ls sn then notes sn else [].

(* the variant that splits a changed line again and goes on (NOT the code; see
   C04_para_resplit_refuted) *)
Definition resnap (ls : list lstate) (sn : snap) : snap :=
  map (fun e => (fst e, match nth_error ls (fst e) with Some l => l_texts l | None => snd e end)) sn.
Definition para_finish_resplit (notes : snap -> list event) (sn : snap) : check :=
  fun ls => notes (resnap ls sn).

Record pstate := { p_st : state; p_snap : snap }.

(* one line of the paragraph: Process remembers it, then the other checkers of
   the same checkLine round run (any checks) *)
Definition para_phase (m : mode) (only : list str) (ps : pstate) (ph : nat * list check) : pstate :=
  {| p_st := fold_left (run_check m only) (snd ph) (p_st ps);
     p_snap := match nth_error (s_lines (p_st ps)) (fst ph) with
               | Some l => p_snap ps ++ [(fst ph, l_texts l)]
               | None => p_snap ps
               end |}.

(* everything up to (not including) Finish: the checks before the paragraph, then its lines *)
Definition para_before (m : mode) (only : list str) (ls : list lstate)
                       (pre : list check) (phases : list (nat * list check)) : pstate :=
  fold_left (para_phase m only) phases
            {| p_st := fold_left (run_check m only) pre (init ls); p_snap := [] |}.

Definition run_para (fin : (snap -> list event) -> snap -> check)
                    (m : mode) (only : list str) (ls : list lstate)
                    (pre : list check) (phases : list (nat * list check))
                    (notes : snap -> list event) : state :=
  let ps := para_before m only ls pre phases in
  step m only (run_check m only (p_st ps) (fin notes (p_snap ps))) ESave.

(* for the correspondence run: the decision of Finish after a list of
   Replace(from, to) fixes on the lines of a paragraph, every line having been
   remembered first.  lines = the raw texts (one raw line each, with newline);
   fixes = (line index, from, to).  Result: true = Finish goes on to realign. *)
Definition para_line (i : nat) (t : str) : lstate := mk_line [102] (N.of_nat (S i)) t [t ++ [10]].
Fixpoint para_lines (i : nat) (ts : list str) : list lstate :=
  match ts with [] => [] | t :: r => para_line i t :: para_lines (S i) r end.
Definition replace_event (fx : nat * (str * str)) : event :=
  EFix (fst fx) Note [114] [114] false [OReplaceAfter [] (fst (snd fx)) (snd (snd fx))].
Definition para_decision (m : mode) (ts : list str) (fixes : list (nat * (str * str))) : bool * list (list str) :=
  let ls := para_lines 0 ts in
  let sn : snap := combine (seq 0 (length ls)) (map l_texts ls) in
  let st := run_events m [] (init ls) (map replace_event fixes) in
  (unchanged (s_lines st) sn && negb (s_panic st), map l_texts (s_lines st)).
