(* Model of /repo/v23/distinfo.go: computePatchSha1Hex, checkPatchSha1, and of
   the Autofix.ReplaceAfter call it makes, Autofix.Replace (= ReplaceAfter with prefix ""),
   Package.AutofixDistinfo (package.go), util.go replaceOnce, strings.Contains / Index / LastIndex / Count.
   The hash (SHA-1, printed as lower-case hex) is a Section variable: both pkglint
   and makepatchsum apply it to a byte string.  No proofs here. *)
From PV Require Import Lib.Bytes Model.Lines.
Open Scope N_scope.

(* "$" + "NetBSD" *)
Definition skip_text : str := [36; 78; 101; 116; 66; 83; 68].

(* strings.Contains(s, substr) *)
Fixpoint contains (s substr : str) : bool :=
  has_prefix substr s || match s with [] => false | _ :: t => contains t substr end.

(* strings.Index(s, sub): index of the first occurrence *)
Fixpoint index_from (s sub : str) (i : nat) : option nat :=
  if has_prefix sub s then Some i
  else match s with [] => None | _ :: t => index_from t sub (S i) end.
Definition str_index (s sub : str) : option nat := index_from s sub 0.

(* strings.LastIndex(s, sub): index of the last occurrence *)
Fixpoint last_index_from (s sub : str) (i : nat) : option nat :=
  match s with
  | [] => if has_prefix sub [] then Some i else None
  | _ :: t => match last_index_from t sub (S i) with
              | Some j => Some j
              | None => if has_prefix sub s then Some i else None
              end
  end.
Definition str_last_index (s sub : str) : option nat := last_index_from s sub 0.

(* strings.Count(s, sub) for non-empty sub: non-overlapping occurrences, left to
   right (`skip` = bytes of the previous match still to be passed over);
   for sub = "" Go returns the number of code points + 1 (bytes + 1 here; not
   reachable from checkPatchSha1, the distinfo hash matches \S+) *)
Fixpoint count_from (s sub : str) (skip : nat) : N :=
  match s with
  | [] => 0
  | _ :: t => match skip with
              | S k => count_from t sub k
              | O => if has_prefix sub s then 1 + count_from t sub (length sub - 1)
                     else count_from t sub 0
              end
  end.
Definition str_count (s sub : str) : N :=
  match sub with [] => N.of_nat (length s) + 1 | _ => count_from s sub 0 end.

(* util.go replaceOnce(s, from, to) *)
Definition replace_once (s from to : str) : bool * str :=
  match str_index s from, str_last_index s from with
  | Some index, Some last =>
    if Nat.eqb index last then (true, firstn index s ++ to ++ skipn (index + length from) s)
    else (false, s)
  | _, _ => (false, s)
  end.

(* the second loop of ReplaceAfter: the first text on which replaceOnce succeeds *)
Fixpoint replace_in_texts (texts : list str) (from to : str) : list str :=
  match texts with
  | [] => []
  | t :: rest => let (ok, replaced) := replace_once t from to in
                 if ok then replaced :: rest else t :: replace_in_texts rest from to
  end.

(* Autofix.Replace(from, to) on fix.texts, in --autofix mode *)
Definition autofix_replace (texts : list str) (from to : str) : list str :=
  let n := fold_left (fun n t => n + str_count t from) texts 0 in
  if n =? 1 then replace_in_texts texts from to else texts.

(* Autofix.ReplaceAfter(prefix, from, to): prefix+from is replaced by prefix+to,
   under the same "counted exactly once" rule *)
Definition autofix_replace_after (prefix : str) (texts : list str) (from to : str) : list str :=
  autofix_replace texts (prefix ++ from) (prefix ++ to).

(* ") = " *)
Definition entry_sep : str := [41; 32; 61; 32].

(* package.go Package.AutofixDistinfo(oldSha1, newSha1), called by the patch
   checker after it has saved fixes to a patch file.  Each element is one line of
   distinfo: its fix.texts, and -- when the line is `SHA1 (<name>) = ...` and
   patches/<name> can be loaded -- computePatchSha1Hex of that file.  Entries of
   patches that do not have the new hash are skipped (`continue`); all other
   lines get fix.Replace(oldSha1, newSha1). *)
Definition autofix_distinfo (lines : list (list str * option str)) (old_sha1 new_sha1 : str)
  : list (list str) :=
  map (fun l => match snd l with
                | Some other_sha1 =>
                  if negb (str_eqb other_sha1 new_sha1) then fst l
                  else autofix_replace (fst l) old_sha1 new_sha1
                | None => autofix_replace (fst l) old_sha1 new_sha1
                end) lines.

Section PatchSum.
Variable H : str -> str.   (* sprintf("%x", sha1(bytes)) *)

(* the bytes written to the hasher by computePatchSha1Hex: hasher.Write appends *)
Definition hashed_bytes (lines : list line) : str :=
  concat (flat_map (fun l => filter (fun textnl => negb (contains textnl skip_text)) (raws l)) lines).

Definition compute_patch_sha1_hex (lines : list line) : str := H (hashed_bytes lines).

Inductive verdict : Type :=
| Silent                                    (* no diagnostic *)
| Differs (distinfo_hex file_hex : str)     (* "SHA1 hash of … differs" + ReplaceAfter(") = ", distinfo_hex, file_hex) *)
| DoesNotExist                              (* Load returned nil *)
| LoadPanic.                                (* excluded by C18_check_total *)

(* checkPatchSha1(line, patchFileName, distinfoSha1Hex); patch = the file's bytes
   (None = cannot be read); Load(file, 0) = convertToLogicalLines in plain mode *)
Definition check_patch_sha1 (patch : option str) (distinfo_sha1_hex : str) : verdict :=
  match patch with
  | None => DoesNotExist
  | Some raw_text =>
    match convert_to_logical_lines raw_text false with
    | Ok (lines, _) =>
      let file_sha1_hex := compute_patch_sha1_hex lines in
      if str_eqb distinfo_sha1_hex file_sha1_hex then Silent
      else Differs distinfo_sha1_hex file_sha1_hex
    | Panic => LoadPanic
    | OutOfFuel => LoadPanic
    end
  end.

(* the texts of the distinfo line after the fix of checkPatchSha1 *)
Definition fix_distinfo_line (texts : list str) (v : verdict) : list str :=
  match v with
  | Differs old new => autofix_replace_after entry_sep texts old new   (* fix.ReplaceAfter(") = ", old, new) *)
  | _ => texts
  end.
End PatchSum.
