(* Model of /repo/v23/distinfo.go: computePatchSha1Hex, checkPatchSha1, and of
   the Autofix.ReplaceAfter call it makes, Autofix.Replace (= ReplaceAfter with prefix ""),
   Package.AutofixDistinfo (package.go), util.go replaceOnce, strings.Contains / Index / LastIndex / Count.
   The hash (SHA-1, printed as lower-case hex) is a Section variable: both pkglint
   and makepatchsum apply it to a byte string.  No proofs here. *)
From PV Require Import Lib.Bytes Model.Lines.
Open Scope N_scope.

(* "$" + "NetBSD" *)
Definition skip_text : str := [36; 78; 101; 116; 66; 83; 68].

(* strings.Contains(s, substr) *)
Fixpoint contains (s substr : str) : bool :=
  has_prefix substr s || match s with [] => false | _ :: t => contains t substr end.

(* strings.Index(s, sub): index of the first occurrence *)
Fixpoint index_from (s sub : str) (i : nat) : option nat :=
  if has_prefix sub s then Some i
  else match s with [] => None | _ :: t => index_from t sub (S i) end.
Definition str_index (s sub : str) : option nat := index_from s sub 0.

(* strings.LastIndex(s, sub): index of the last occurrence *)
Fixpoint last_index_from (s sub : str) (i : nat) : option nat :=
  match s with
  | [] => if has_prefix sub [] then Some i else None
  | _ :: t => match last_index_from t sub (S i) with
              | Some j => Some j
              | None => if has_prefix sub s then Some i else None
              end
  end.
Definition str_last_index (s sub : str) : option nat := last_index_from s sub 0.

(* strings.Count(s, sub) for non-empty sub: non-overlapping occurrences, left to
   right (`skip` = bytes of the previous match still to be passed over);
   for sub = "" Go returns the number of code points + 1 (bytes + 1 here; not
   reachable from checkPatchSha1, the distinfo hash matches \S+) *)
Fixpoint count_from (s sub : str) (skip : nat) : N :=
  match s with
  | [] => 0
  | _ :: t => match skip with
              | S k => count_from t sub k
              | O => if has_prefix sub s then 1 + count_from t sub (length sub - 1)
                     else count_from t sub 0
              end
  end.
Definition str_count (s sub : str) : N :=
  match sub with [] => N.of_nat (length s) + 1 | _ => count_from s sub 0 end.

(* util.go replaceOnce(s, from, to) *)
Definition replace_once (s from to : str) : bool * str :=
  match str_index s from, str_last_index s from with
  | Some index, Some last =>
    if Nat.eqb index last then (true, firstn index s ++ to ++ skipn (index + length from) s)
    else (false, s)
  | _, _ => (false, s)
  end.

(* the second loop of ReplaceAfter: the first text on which replaceOnce succeeds *)
Fixpoint replace_in_texts (texts : list str) (from to : str) : list str :=
  match texts with
  | [] => []
  | t :: rest => let (ok, replaced) := replace_once t from to in
                 if ok then replaced :: rest else t :: replace_in_texts rest from to
  end.

(* Autofix.Replace(from, to) on fix.texts, in --autofix mode *)
Definition autofix_replace (texts : list str) (from to : str) : list str :=
  let n := fold_left (fun n t => n + str_count t from) texts 0 in
  if n =? 1 then replace_in_texts texts from to else texts.

(* Autofix.ReplaceAfter(prefix, from, to): prefix+from is replaced by prefix+to,
   under the same "counted exactly once" rule *)
Definition autofix_replace_after (prefix : str) (texts : list str) (from to : str) : list str :=
  autofix_replace texts (prefix ++ from) (prefix ++ to).

(* ") = " *)
Definition entry_sep : str := [41; 32; 61; 32].

(* package.go Package.AutofixDistinfo(oldSha1, newSha1), called by the patch
   checker after it has saved fixes to a patch file.  Each element is one line of
   distinfo: its fix.texts, and -- when the line is `SHA1 (<name>) = ...` and
   patches/<name> can be loaded -- computePatchSha1Hex of that file.  Entries of
   patches that do not have the new hash are skipped (`continue`); all other
   lines get fix.Replace(oldSha1, newSha1). *)
Definition autofix_distinfo (lines : list (list str * option str)) (old_sha1 new_sha1 : str)
  : list (list str) :=
  map (fun l => match snd l with
                | Some other_sha1 =>
                  if negb (str_eqb other_sha1 new_sha1) then fst l
                  else autofix_replace (fst l) old_sha1 new_sha1
                | None => autofix_replace (fst l) old_sha1 new_sha1
                end) lines.

Section PatchSum.
Variable H : str -> str.   (* sprintf("%x", sha1(bytes)) *)

(* the bytes written to the hasher by computePatchSha1Hex: hasher.Write appends *)
Definition hashed_bytes (lines : list line) : str :=
  concat (flat_map (fun l => filter (fun textnl => negb (contains textnl skip_text)) (raws l)) lines).

Definition compute_patch_sha1_hex (lines : list line) : str := H (hashed_bytes lines).

Inductive verdict : Type :=
| Silent                                    (* no diagnostic *)
| Differs (distinfo_hex file_hex : str)     (* "SHA1 hash of … differs" + ReplaceAfter(") = ", distinfo_hex, file_hex) *)
| DoesNotExist                              (* Load returned nil *)
| LoadPanic.                                (* excluded by C18_check_total *)

(* checkPatchSha1(line, patchFileName, distinfoSha1Hex); patch = the file's bytes
   (None = cannot be read); Load(file, 0) = convertToLogicalLines in plain mode *)
Definition check_patch_sha1 (patch : option str) (distinfo_sha1_hex : str) : verdict :=
  match patch with
  | None => DoesNotExist
  | Some raw_text =>
    match convert_to_logical_lines raw_text false with
    | Ok (lines, _) =>
      let file_sha1_hex := compute_patch_sha1_hex lines in
      if str_eqb distinfo_sha1_hex file_sha1_hex then Silent
      else Differs distinfo_sha1_hex file_sha1_hex
    | Panic => LoadPanic
    | OutOfFuel => LoadPanic
    end
  end.

(* the texts of the distinfo line after the fix of checkPatchSha1 *)
Definition fix_distinfo_line (texts : list str) (v : verdict) : list str :=
  match v with
  | Differs old new => autofix_replace_after entry_sep texts old new   (* fix.ReplaceAfter(") = ", old, new) *)
  | _ => texts
  end.
End PatchSum.

(* ---- the CVS gate in front of checkPatchSha1 --------------------------------
   util.go isCommitted, pkglint.go Pkglint.loadCvsEntries (CVS/Entries and
   CVS/Entries.Log of the directory of the file), distinfo.go
   CheckLinesDistinfo (distinfoIsCommitted) and checkUncommittedPatch.
   The map[RelPath]CvsEntry is modelled by the list of its keys (only the key
   is ever looked at by isCommitted); a nil map is None.  The one-slot memo
   (cvsEntriesDir / cvsEntries) is not modelled: it returns what the same call
   returned before. *)

Definition slash : N := 47.

(* strings.Split(text, "/") *)
Fixpoint split_on_acc (sep : N) (cur s : str) : list str :=
  match s with
  | [] => [cur]
  | c :: t => if c =? sep then cur :: split_on_acc sep [] t
              else split_on_acc sep (cur ++ [c]) t
  end.
Definition split_slash (s : str) : list str := split_on_acc slash [] s.

(* the closure handle(line, add, text) of loadCvsEntries *)
Definition cvs_handle (entries : list str) (add : bool) (text : str) : list str :=
  if negb (has_prefix [slash] text) then entries
  else
    let fields := split_slash text in
    if negb (Nat.eqb (length fields) 6) then entries          (* line.Errorf("Invalid line: ...") *)
    else
      let key := nth 1 fields [] in                            (* fields[1]; len(fields) = 6 *)
      if add then key :: entries                               (* entries[key] = CvsEntry{...} *)
      else filter (fun k => negb (str_eqb k key)) entries.     (* delete(entries, key) *)

(* one line of CVS/Entries.Log: "A " adds, "R " removes, anything else is skipped *)
Definition cvs_log_line (entries : list str) (text : str) : list str :=
  if has_prefix [65; 32] text then cvs_handle entries true (skipn 2 text)
  else if has_prefix [82; 32] text then cvs_handle entries false (skipn 2 text)
  else entries.

(* the CVS administrative files of one directory: the bytes of CVS/Entries and
   of CVS/Entries.Log (None = the file cannot be read) *)
Record cvs_dir : Type := mk_cvs_dir { cvs_entries : option str; cvs_entries_log : option str }.

(* Load(file, 0).Lines[i].Text *)
Definition load_texts (raw_text : str) : res (list str) :=
  match convert_to_logical_lines raw_text false with
  | Ok (lines, _) => Ok (map text lines)
  | Panic => Panic
  | OutOfFuel => OutOfFuel
  end.

(* loadCvsEntries(filename) for a file in that directory; None = the nil map.
   Entries.Log is only read when CVS/Entries could be read. *)
Definition load_cvs_entries (d : cvs_dir) : res (option (list str)) :=
  match cvs_entries d with
  | None => Ok None
  | Some raw =>
    match load_texts raw with
    | Ok texts =>
      let entries := fold_left (fun es t => cvs_handle es true t) texts [] in
      match cvs_entries_log d with
      | None => Ok (Some entries)
      | Some log_raw =>
        match load_texts log_raw with
        | Ok log_texts => Ok (Some (fold_left cvs_log_line log_texts entries))
        | Panic => Panic
        | OutOfFuel => OutOfFuel
        end
      end
    | Panic => Panic
    | OutOfFuel => OutOfFuel
    end
  end.

(* isCommitted(filename): `_, found := entries[filename.Base()]` *)
Definition is_committed (d : cvs_dir) (base : str) : res bool :=
  match load_cvs_entries d with
  | Ok None => Ok false
  | Ok (Some entries) => Ok (existsb (str_eqb base) entries)
  | Panic => Panic
  | OutOfFuel => OutOfFuel
  end.

Definition distinfo_name : str := [100; 105; 115; 116; 105; 110; 102; 111].   (* "distinfo" *)
Definition sha1_name : str := [83; 72; 65; 49].                                 (* "SHA1" *)

Section CvsGate.
Variable H : str -> str.

(* checkUncommittedPatch(info) with ck.distinfoIsCommitted given: whether the
   warning "... is registered in distinfo but not added to CVS." is emitted, and
   the verdict of checkPatchSha1 (None when the algorithm is not SHA1).
   isCommitted(patch) is only evaluated when distinfoIsCommitted (&&). *)
Definition check_uncommitted_patch (distinfo_is_committed : bool) (patch_cvs : cvs_dir)
    (patch_base alg : str) (patch : option str) (hash : str) : res (bool * option verdict) :=
  let warned :=
    if distinfo_is_committed then
      match is_committed patch_cvs patch_base with
      | Ok c => Ok (negb c)
      | Panic => Panic
      | OutOfFuel => OutOfFuel
      end
    else Ok false in
  match warned with
  | Ok w => Ok (w, if str_eqb alg sha1_name then Some (check_patch_sha1 H patch hash) else None)
  | Panic => Panic
  | OutOfFuel => OutOfFuel
  end.

(* CheckLinesDistinfo -> check -> checkUncommittedPatch for one hash line of an
   existing patch: distinfoIsCommitted := isCommitted(<pkgdir>/distinfo) first *)
Definition check_entry_cvs (pkg_cvs patch_cvs : cvs_dir)
    (patch_base alg : str) (patch : option str) (hash : str) : res (bool * option verdict) :=
  match is_committed pkg_cvs distinfo_name with
  | Ok dc => check_uncommitted_patch dc patch_cvs patch_base alg patch hash
  | Panic => Panic
  | OutOfFuel => OutOfFuel
  end.
End CvsGate.
