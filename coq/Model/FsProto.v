(* File-system protocol machine (DESIGN.md section 4) and the save protocol of
   pkglint's autofix (C05).

   Go code modelled (one definition per function, same case structure):
     v23/path.go     CurrPath.WriteString -> os.WriteFile   = write_file (no longer used by the save)
                     CurrPath.Rename      -> os.Rename      = sys (Rename a b)
                     CurrPath.Chmod       -> os.Chmod       = sys (Chmod p m)
     v23/autofix.go  SaveAutofixChanges, loop over `changed` = save_one / run
     v23/pkglint.go  checkExecutable, fix.Custom             = chmod_fix
     v23/logging.go  Logger.TechErrorf                       = tech_error

   No proofs in this file. *)
From PV Require Import Lib.Bytes.
Open Scope N_scope.

(* ---------- the file system: finite map path -> (kind, bytes, mode) ---------- *)

Definition path := str.
(* what a directory entry is.  The save protocol itself only ever creates regular
   files; the other kinds occur as FOREIGN entries of the initial tree (in particular
   at a name F.pkglint.tmp).  For a directory f_data is [] (its members are entries of
   their own), for a symbolic link f_data is the link text (lstat view: the link itself,
   never its target). *)
Inductive kind := KReg | KDir | KSymlink.
Record file := mkfile { f_kind : kind; f_data : str; f_mode : N }.
Definition fsmap := list (path * file).

Fixpoint lookup (p : path) (m : fsmap) : option file :=
  match m with
  | [] => None
  | (q, f) :: m' => if str_eqb q p then Some f else lookup p m'
  end.

Fixpoint remove (p : path) (m : fsmap) : fsmap :=
  match m with
  | [] => []
  | (q, f) :: m' => if str_eqb q p then remove p m' else (q, f) :: remove p m'
  end.

Definition set (p : path) (f : file) (m : fsmap) : fsmap := (p, f) :: remove p m.

(* open file descriptors: fd -> current name of the inode it refers to
   (None: the inode has lost its name by unlink or by being renamed over).
   Every inode has at most one name: hard links are outside the model. *)
Definition fdtab := list (N * option path).

Fixpoint fd_lookup (fd : N) (t : fdtab) : option (option path) :=
  match t with
  | [] => None
  | (k, v) :: t' => if k =? fd then Some v else fd_lookup fd t'
  end.

Fixpoint fd_remove (fd : N) (t : fdtab) : fdtab :=
  match t with
  | [] => []
  | (k, v) :: t' => if k =? fd then fd_remove fd t' else (k, v) :: fd_remove fd t'
  end.

Definition fd_set (fd : N) (v : option path) (t : fdtab) : fdtab := (fd, v) :: fd_remove fd t.

(* after rename a b: descriptors on the old b lose their name, those on a follow it *)
Definition fd_renamed (a b : path) (t : fdtab) : fdtab :=
  map (fun kv : N * option path =>
         match snd kv with
         | Some q => if str_eqb q b then (fst kv, None)
                     else if str_eqb q a then (fst kv, Some b) else kv
         | None => kv
         end) t.

Definition fd_unlinked (p : path) (t : fdtab) : fdtab :=
  map (fun kv : N * option path =>
         match snd kv with
         | Some q => if str_eqb q p then (fst kv, None) else kv
         | None => kv
         end) t.

Record state := mkstate { st_fs : fsmap; st_fds : fdtab; st_umask : N }.

Inductive errno := ENOENT | EBADF | ENOSPC | EIO | EACCES | EXDEV | EEXIST | ELOOP.

(* ---------- operations = the mutating system calls ---------- *)

Inductive op :=
| Open (fd : N) (p : path) (perm : N)  (* openat(p, O_WRONLY|O_CREAT|O_TRUNC, perm) = fd; only in the refuted variants *)
| OpenExcl (fd : N) (p : path) (perm : N) (* openat(p, O_WRONLY|O_CREAT|O_EXCL, perm) = fd *)
| Write (fd : N) (data : str)          (* write(fd, data) = |data| *)
| Close (fd : N)
| Rename (a b : path)                  (* renameat(a, b) *)
| Chmod (p : path) (mode : N)          (* fchmodat(p, mode) *)
| Unlink (p : path).                   (* only used by the refuted variants *)

(* one successful system call; errors that the file system itself produces
   (missing file, unknown descriptor) are explicit results, never silent no-ops *)
Definition step (s : state) (o : op) : state * option errno :=
  match o with
  | Open fd p perm =>
    let f := match lookup p (st_fs s) with
             | Some old => mkfile (f_kind old) [] (f_mode old)       (* O_TRUNC keeps the mode *)
             | None => mkfile KReg [] (N.ldiff perm (st_umask s))    (* O_CREAT: perm &^ umask *)
             end in
    (mkstate (set p f (st_fs s)) (fd_set fd (Some p) (st_fds s)) (st_umask s), None)
  | OpenExcl fd p perm =>
    match lookup p (st_fs s) with
    | Some _ => (s, Some EEXIST)        (* O_EXCL: an existing entry of ANY kind (regular, empty or not,
                                           directory, symbolic link -- also a dangling one) is never touched *)
    | None =>
      (mkstate (set p (mkfile KReg [] (N.ldiff perm (st_umask s))) (st_fs s))
               (fd_set fd (Some p) (st_fds s)) (st_umask s), None)
    end
  | Write fd data =>
    match fd_lookup fd (st_fds s) with
    | None => (s, Some EBADF)
    | Some None => (s, None)            (* the inode has no name any more: the bytes are lost *)
    | Some (Some p) =>
      match lookup p (st_fs s) with
      | None => (s, Some EBADF)
      | Some f => (mkstate (set p (mkfile (f_kind f) (f_data f ++ data) (f_mode f)) (st_fs s)) (st_fds s) (st_umask s), None)
      end
    end
  | Close fd =>
    match fd_lookup fd (st_fds s) with
    | None => (s, Some EBADF)
    | Some _ => (mkstate (st_fs s) (fd_remove fd (st_fds s)) (st_umask s), None)
    end
  | Rename a b =>                         (* kind-agnostic: the protocol renames a regular temporary file it created onto the file it loaded; a directory as rename TARGET is outside the model (checks/C05.json, assumptions) *)
    match lookup a (st_fs s) with
    | None => (s, Some ENOENT)
    | Some f =>
      if str_eqb a b then (s, None)
      else (mkstate (set b f (remove a (st_fs s))) (fd_renamed a b (st_fds s)) (st_umask s), None)
    end
  | Chmod p mode =>
    match lookup p (st_fs s) with
    | None => (s, Some ENOENT)
    | Some f => (mkstate (set p (mkfile (f_kind f) (f_data f) mode) (st_fs s)) (st_fds s) (st_umask s), None)
    end
  | Unlink p =>
    match lookup p (st_fs s) with
    | None => (s, Some ENOENT)
    | Some _ => (mkstate (remove p (st_fs s)) (fd_unlinked p (st_fds s)) (st_umask s), None)
    end
  end.

(* a plain sequence of system calls (what is left of a run after a crash) *)
Definition exec (ops : list op) (s : state) : state :=
  fold_left (fun s o => fst (step s o)) ops s.

(* ---------- faults ---------- *)

(* One system call fails with `fl_errno`. Its documented partial effect:
   write: the first fl_short bytes have reached the file (the kernel accepted a
          short write, Go's poll.FD.Write loop retried the rest and got the error);
   close: the descriptor is released all the same (Linux);
   open, rename, chmod, unlink: none. *)
Record fault := mkfault { fl_short : nat; fl_errno : errno }.

Definition step_fault (s : state) (o : op) (fl : fault) : state :=
  match o with
  | Write fd data => fst (step s (Write fd (firstn (fl_short fl) data)))
  | Close fd => fst (step s (Close fd))
  | _ => s
  end.

(* ---------- the running program ---------- *)

Inductive errkind := CannotWrite | CannotOverwrite | CannotClearExec.

Record world := mkworld {
  w_st : state;
  w_count : nat;                          (* system calls issued so far *)
  w_plan : option (nat * fault);          (* fail the system call with this index *)
  w_trace : list (op * option errno);     (* issued system calls with their results *)
  w_stderr : list (errkind * path);       (* ERROR lines written by TechErrorf *)
  w_saved : bool                          (* `autofixed`, the result of the latest SaveAutofixChanges *)
}.

Definition sys (o : op) (w : world) : world * option errno :=
  let hit := match w_plan w with
             | Some (k, fl) => if Nat.eqb k (w_count w) then Some fl else None
             | None => None
             end in
  match hit with
  | Some fl =>
    (mkworld (step_fault (w_st w) o fl) (S (w_count w)) (w_plan w)
             (w_trace w ++ [(o, Some (fl_errno fl))]) (w_stderr w) (w_saved w), Some (fl_errno fl))
  | None =>
    let (s', r) := step (w_st w) o in
    (mkworld s' (S (w_count w)) (w_plan w) (w_trace w ++ [(o, r)]) (w_stderr w) (w_saved w), r)
  end.

(* Logger.TechErrorf: one line on stderr, nothing else (no counter, no exit status) *)
Definition tech_error (k : errkind) (loc : path) (w : world) : world :=
  mkworld (w_st w) (w_count w) (w_plan w) (w_trace w) (w_stderr w ++ [(k, loc)]) (w_saved w).

Definition set_saved (b : bool) (w : world) : world :=
  mkworld (w_st w) (w_count w) (w_plan w) (w_trace w) (w_stderr w) b.

(* os.WriteFile(name, data, perm):
     f, err := OpenFile(name, O_WRONLY|O_CREATE|O_TRUNC, perm); if err != nil { return err }
     _, err = f.Write(data)
     if err1 := f.Close(); err1 != nil && err == nil { err = err1 }
     return err
   The program has one file open at a time; its descriptor is called 0 here. *)
Definition write_file (name : path) (data : str) (perm : N) (w : world) : world * option errno :=
  match sys (Open 0 name perm) w with
  | (w1, Some e) => (w1, Some e)
  | (w1, None) =>
    let (w2, err) := sys (Write 0 data) w1 in
    let (w3, err1) := sys (Close 0) w2 in
    (w3, match err with Some e => Some e | None => err1 end)
  end.

Definition tmp_suffix : str := [46; 112; 107; 103; 108; 105; 110; 116; 46; 116; 109; 112]. (* ".pkglint.tmp" *)
Definition tmp_name (f : path) : path := f ++ tmp_suffix.

(* SaveAutofixChanges for lines of one changed file (after the three repairs:
   exclusive creation of the temporary file, mode of the original carried over,
   temporary file removed when the save fails):

     tmpFile, err := os.OpenFile(tmpName, O_WRONLY|O_CREATE|O_EXCL, 0666)
     if err != nil { TechErrorf(tmpName, "Cannot write"); continue }
     _, err = tmpFile.WriteString(text)
     if closeErr := tmpFile.Close(); err == nil { err = closeErr }
     if st, statErr := filename.Stat(); err == nil && statErr == nil { err = tmpName.Chmod(st.Mode().Perm()) }
     if err != nil { TechErrorf(tmpName, "Cannot write"); _ = os.Remove(tmpName); continue }
     err = tmpName.Rename(filename)
     if err != nil { TechErrorf(tmpName, "Cannot overwrite ..."); _ = os.Remove(tmpName); continue }
     autofixed = true

   Stat is not a mutating call: it is a lookup in the current state. *)
Definition save_one (f : path) (new : str) (w : world) : world :=
  let tmp := tmp_name f in
  match sys (OpenExcl 0 tmp 438 (* 0666 *)) (set_saved false w) with
  | (w1, Some _) => tech_error CannotWrite tmp w1                       (* continue *)
  | (w1, None) =>
    let (w2, err) := sys (Write 0 new) w1 in
    let (w3, err1) := sys (Close 0) w2 in
    let err' := match err with Some e => Some e | None => err1 end in
    let (w4, err'') :=
      match err', lookup f (st_fs (w_st w3)) with
      | None, Some old => sys (Chmod tmp (f_mode old)) w3
      | _, _ => (w3, err')
      end in
    match err'' with
    | Some _ => fst (sys (Unlink tmp) (tech_error CannotWrite tmp w4))  (* continue *)
    | None =>
      match sys (Rename tmp f) w4 with
      | (w5, Some _) => fst (sys (Unlink tmp) (tech_error CannotOverwrite tmp w5))  (* continue *)
      | (w5, None) => set_saved true w5                                 (* autofixed = true *)
      end
    end
  end.

(* checkExecutable's custom fix: filename.Chmod(mode &^ 0111), mode from the earlier Lstat *)
Definition chmod_fix (f : path) (mode : N) (w : world) : world :=
  match sys (Chmod f (N.ldiff mode 73 (* 0111 *))) w with
  | (w1, Some _) => tech_error CannotClearExec f w1
  | (w1, None) => w1
  end.

(* what one --autofix run does to the tree, in order.  Two callers look at the
   result of SaveAutofixChanges:
     plist.go   PlistChecker.Check: sorter.Sort() saves the sorted lines;
                `if !sorter.autofixed { SaveAutofixChanges(plainLines) }`   = AIfSaved false
     patches.go `if SaveAutofixChanges(ck.lines) && pkg != nil { pkg.AutofixDistinfo(..) }`
                (which ends in another SaveAutofixChanges)                    = AIfSaved true *)
Inductive action :=
| ASave (f : path) (new : str)
| AChmod (f : path) (mode : N)
| AIfSaved (b : bool) (f : path) (new : str).

Definition run_action (w : world) (a : action) : world :=
  match a with
  | ASave f new => save_one f new w
  | AChmod f mode => chmod_fix f mode w
  | AIfSaved b f new => if Bool.eqb (w_saved w) b then save_one f new w else w
  end.

Definition run (prog : list action) (w : world) : world := fold_left run_action prog w.

Definition init_world (s : state) (plan : option (nat * fault)) : world :=
  mkworld s 0 plan [] [] false.

(* ---------- the same protocol as a plain list (no fault) ---------- *)

(* the system calls of one save that meets no error, in state s: when the temporary
   name is taken the exclusive open fails and that is all; the mode is carried over
   when the original exists *)
Definition save_ops (s : state) (f : path) (new : str) : list op :=
  match lookup (tmp_name f) (st_fs s) with
  | Some _ => [OpenExcl 0 (tmp_name f) 438]
  | None =>
    [OpenExcl 0 (tmp_name f) 438; Write 0 new; Close 0] ++
    match lookup f (st_fs s) with
    | Some old => [Chmod (tmp_name f) (f_mode old)]
    | None => []
    end ++ [Rename (tmp_name f) f]
  end.

Definition save_succeeds (s : state) (f : path) : bool :=
  match lookup (tmp_name f) (st_fs s) with Some _ => false | None => true end.

(* without a fault the only error a save can meet is EEXIST (Proofs: run_nofault), so
   the condition of AIfSaved is known from the state *)
Fixpoint prog_ops_from (saved : bool) (s : state) (prog : list action) : list op :=
  match prog with
  | [] => []
  | ASave f new :: rest =>
    save_ops s f new ++ prog_ops_from (save_succeeds s f) (exec (save_ops s f new) s) rest
  | AChmod f mode :: rest =>
    Chmod f (N.ldiff mode 73) :: prog_ops_from saved (exec [Chmod f (N.ldiff mode 73)] s) rest
  | AIfSaved b f new :: rest =>
    if Bool.eqb saved b
    then save_ops s f new ++ prog_ops_from (save_succeeds s f) (exec (save_ops s f new) s) rest
    else prog_ops_from saved s rest
  end.

Definition prog_ops (s : state) (prog : list action) : list op := prog_ops_from false s prog.

(* ---------- other ways to write the file, all refuted by the crash spec ---------- *)

(* the protocol before the repair: the temporary file is opened with O_TRUNC *)
Definition trunc_tmp_ops (f : path) (new : str) : list op :=
  [Open 0 (tmp_name f) 438; Write 0 new; Close 0; Rename (tmp_name f) f].

Definition inplace_ops (f : path) (new : str) : list op :=
  [Open 0 f 438; Write 0 new; Close 0].

Definition remove_rename_ops (f : path) (new : str) : list op :=
  [Open 0 (tmp_name f) 438; Write 0 new; Close 0; Unlink f; Rename (tmp_name f) f].

Definition copyback_ops (f : path) (new : str) : list op :=
  [Open 0 (tmp_name f) 438; Write 0 new; Close 0;
   Open 0 f 438; Write 0 new; Close 0; Unlink (tmp_name f)].
