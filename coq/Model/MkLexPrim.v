(* Model of /repo/v23/textproc/lexer.go as far as the make lexers use it.
   The lexer state is the rest string; a LexerMark is a rest string as well.
   Definitions only (proofs: Proofs/MkLexPrim.v). *)
From PV Require Import Lib.Bytes.
Open Scope N_scope.

(* Result of a modelled Go function: a value, the model's fuel ran out, or the
   Go code panics (index/slice out of range, failed assert). *)
Inductive res (A : Type) : Type :=
| Ok (a : A)
| OutOfFuel
| Panic.
Arguments Ok {A} a.
Arguments OutOfFuel {A}.
Arguments Panic {A}.

Definition bind {A B : Type} (r : res A) (f : A -> res B) : res B :=
  match r with
  | Ok a => f a
  | OutOfFuel => OutOfFuel
  | Panic => Panic
  end.

Notation "x <- e ;; k" := (bind e (fun x => k))
  (at level 61, e at next level, right associativity).
Notation "' p <- e ;; k" := (bind e (fun x => match x with p => k end))
  (at level 61, p pattern, e at next level, right associativity).

(* ---- textproc.NewByteSet / ByteSet.Contains ----
   NewByteSet("A-Za-z_"): `x-y` (with a third byte present) is an inclusive
   range, everything else a single byte. *)
Fixpoint in_set (chars : str) (c : N) : bool :=
  match chars with
  | [] => false
  | a :: t =>
    match t with
    | 45 :: b :: rest => ((a <=? c) && (c <=? b)) || in_set rest c
    | _ => (a =? c) || in_set t c
    end
  end.

(* ---- Lexer primitives ---- *)

(* PeekByte: None models -1 *)
Definition peek (s : str) : option N := hd_error s.

Definition peek_is (s : str) (b : N) : bool :=
  match s with c :: _ => c =? b | [] => false end.

(* Skip(n): l.rest = l.rest[n:] panics when n > len(rest) *)
Definition skip (n : nat) (s : str) : res str :=
  if (n <=? length s)%nat then Ok (skipn n s) else Panic.

(* SkipByte(b) *)
Definition skip_byte (b : N) (s : str) : option str :=
  match s with
  | c :: t => if c =? b then Some t else None
  | [] => None
  end.

(* `lexer.SkipByte(b)` used as a statement: the result is ignored *)
Definition skip_byte_opt (b : N) (s : str) : str :=
  match skip_byte b s with Some r => r | None => s end.

(* SkipString(prefix) / NextString(prefix) *)
Definition skip_string (p : str) (s : str) : option str := strip_prefix p s.

(* NextBytesFunc / NextBytesSet / NextHspace: (chopped prefix, rest) *)
Definition next_bytes (f : N -> bool) (s : str) : str * str := span f s.

(* Since(mark) = mark[0 : len(mark)-len(rest)] ; never panics for len(rest) <= len(mark);
   Go would panic for a negative upper bound *)
Definition since (mark rest : str) : str := firstn (length mark - length rest) mark.

Definition nonempty (s : str) : bool := match s with [] => false | _ => true end.

(* strings.HasSuffix *)
Definition has_suffix (suf s : str) : bool :=
  (length suf <=? length s)%nat && str_eqb (skipn (length s - length suf) s) suf.

(* strings.Contains(s, [b]) *)
Definition contains_byte (b : N) (s : str) : bool := existsb (N.eqb b) s.

(* rtrimHspace / trimHspace (util.go) *)
Fixpoint rtrim_hspace (s : str) : str :=
  match s with
  | [] => []
  | c :: t => match rtrim_hspace t with
              | [] => if is_hspace c then [] else [c]
              | t' => c :: t'
              end
  end.
Definition ltrim_hspace (s : str) : str := snd (span is_hspace s).
Definition trim_hspace (s : str) : str := rtrim_hspace (ltrim_hspace s).

(* ---- loops of the shape  for A() || B() || C() { }  ----
   A step either fails and leaves the lexer where it was (None) or chops off
   something and returns the new rest. *)
Definition step := str -> res (option str).

Definition orelse (a b : step) : step := fun s =>
  match a s with
  | Ok None => b s
  | r => r
  end.

Definition st_bytes (f : N -> bool) : step := fun s =>
  let (a, r) := span f s in
  match a with [] => Ok None | _ => Ok (Some r) end.

Definition st_string (p : str) : step := fun s => Ok (skip_string p s).

Definition st_opt (f : str -> option str) : step := fun s => Ok (f s).

Fixpoint iterate (st : step) (fuel : nat) (s : str) : res str :=
  match fuel with
  | O => OutOfFuel
  | S f =>
    match st s with
    | Ok (Some r) => iterate st f r
    | Ok None => Ok s
    | OutOfFuel => OutOfFuel
    | Panic => Panic
    end
  end.

(* every iteration of such a loop chops off at least one byte *)
Definition loop (st : step) (s : str) : res str := iterate st (S (length s)) s.

(* ---- the regular expressions of mklexer.go, as explicit functions ----
   All are used anchored at the start (SkipRegexp/NextRegexp require "^"),
   with leftmost-first alternation and a greedy + whose alternatives start
   with different bytes, so no backtracking can change the result. *)

(* ^([^$X\\]|\$\$|\\.)+   returns the rest after the longest match (= s when
   there is no match).  `excl` is the negated class without $ and \;
   `dollar2` says whether the alternative \$\$ is present;
   `.` does not match \n. *)
Fixpoint re_esc_plus (excl : N -> bool) (dollar2 : bool) (s : str) : str :=
  match s with
  | [] => []
  | c :: t =>
    if c =? 36 then
      match t with
      | d :: t' => if dollar2 && (d =? 36) then re_esc_plus excl dollar2 t' else s
      | [] => s
      end
    else if c =? 92 then
      match t with
      | d :: t' => if d =? 10 then s else re_esc_plus excl dollar2 t'
      | [] => s
      end
    else if excl c then s
    else re_esc_plus excl dollar2 t
  end.

(* SkipRegexp with such an expression *)
Definition skip_re_esc (excl : N -> bool) (dollar2 : bool) (s : str) : option str :=
  let r := re_esc_plus excl dollar2 s in
  if (length r <? length s)%nat then Some r else None.

(* exprText:          ^([^$:\\}]|\$\$|\\.)+  resp. with ) *)
Definition re_text (closing : N) : str -> option str :=
  skip_re_esc (fun c => (c =? 58) || (c =? closing)) true.
(* exprModifierSysV:  ^([^$\\}]|\$\$|\\.)+   resp. with ) *)
Definition re_sysv (closing : N) : str -> option str :=
  skip_re_esc (fun c => c =? closing) true.
(* exprModifierAt:    ^([^$@\\]|\\.)+ *)
Definition re_at : str -> option str :=
  skip_re_esc (fun c => c =? 64) false.

(* ^\[(?:[-.\d]+|#)\] *)
Definition re_index (s : str) : option str :=
  match s with
  | c :: t =>
    if c =? 91 then
      let (ds, r) := span (fun c => (c =? 45) || (c =? 46) || is_digit c) t in
      match ds, skip_byte 93 r with
      | _ :: _, Some r' => Some r'
      | _, _ => skip_string [35; 93] t
      end
    else None
  | [] => None
  end.

(* ^[!+?]?= *)
Definition re_assign_op (s : str) : option str :=
  match skip_byte 61 s with
  | Some r => Some r
  | None =>
    match s with
    | c :: t => if (c =? 33) || (c =? 43) || (c =? 63) then skip_byte 61 t else None
    | [] => None
    end
  end.
