(* Model of ShellLexer.Lex (/repo/v23/mkshparser.go): the classification of the
   already split token strings into the terminals of shell.y.

   One call of [Lex] is one call of the Go method.  The Go fields `current`,
   `error` and `result` do not influence the classification and are left out.
   The switch statements are association tables searched in the order of the Go
   `case` clauses; every entry carries the terminal returned and the assignments
   to the lexer state made in that case.

   A token is its text plus what Lex sees when it re-tokenizes the text with
   NewShTokenizer(nil, token).ShToken() in the word case (the tokenizer itself
   is modelled elsewhere, C10):
     WkPlain     any other word
     WkLoopExpr  a single expression atom whose last modifier starts with "@" or "="
     WkNil       ShToken() returns nil (then `lval.Word.Atoms` panics)            *)
From Coq Require Import NArith ZArith List Bool.
From PV Require Import Lib.Bytes Gen.ShellGrammar.
Import ListNotations.
Open Scope Z_scope.

Inductive wkind : Set := WkPlain | WkLoopExpr | WkNil.
Record tok : Set := mkTok { t_text : str; t_kind : wkind }.

Record lexer : Set := mkLx {
  ioRedirect : str;
  remaining : list tok;
  atCommandStart : bool;
  sinceFor : Z;
  sinceCase : Z;
  inCasePattern : bool;
  afterAssign : bool }.

(* NewShellLexer(tokens, rest) *)
Definition new_lexer (tokens : list tok) : lexer := mkLx [] tokens true (-1) (-1) false false.

Definition set_io (s : str) (lx : lexer) : lexer :=
  mkLx s (remaining lx) (atCommandStart lx) (sinceFor lx) (sinceCase lx) (inCasePattern lx) (afterAssign lx).
Definition set_remaining (r : list tok) (lx : lexer) : lexer :=
  mkLx (ioRedirect lx) r (atCommandStart lx) (sinceFor lx) (sinceCase lx) (inCasePattern lx) (afterAssign lx).
Definition set_acs (b : bool) (lx : lexer) : lexer :=
  mkLx (ioRedirect lx) (remaining lx) b (sinceFor lx) (sinceCase lx) (inCasePattern lx) (afterAssign lx).
Definition set_for (z : Z) (lx : lexer) : lexer :=
  mkLx (ioRedirect lx) (remaining lx) (atCommandStart lx) z (sinceCase lx) (inCasePattern lx) (afterAssign lx).
Definition set_case (z : Z) (lx : lexer) : lexer :=
  mkLx (ioRedirect lx) (remaining lx) (atCommandStart lx) (sinceFor lx) z (inCasePattern lx) (afterAssign lx).
Definition set_icp (b : bool) (lx : lexer) : lexer :=
  mkLx (ioRedirect lx) (remaining lx) (atCommandStart lx) (sinceFor lx) (sinceCase lx) b (afterAssign lx).
Definition set_aa (b : bool) (lx : lexer) : lexer :=
  mkLx (ioRedirect lx) (remaining lx) (atCommandStart lx) (sinceFor lx) (sinceCase lx) (inCasePattern lx) b.

Definition s_semi : str := [59]%N. (* ; *)
Definition s_semisemi : str := [59; 59]%N. (* ;; *)
Definition s_nl : str := [10]%N. (* \n *)
Definition s_amp : str := [38]%N. (* & *)
Definition s_pipe : str := [124]%N. (* | *)
Definition s_lparen : str := [40]%N. (* ( *)
Definition s_rparen : str := [41]%N. (* ) *)
Definition s_andand : str := [38; 38]%N. (* && *)
Definition s_oror : str := [124; 124]%N. (* || *)
Definition s_gt : str := [62]%N. (* > *)
Definition s_gtand : str := [62; 38]%N. (* >& *)
Definition s_lt : str := [60]%N. (* < *)
Definition s_ltand : str := [60; 38]%N. (* <& *)
Definition s_ltgt : str := [60; 62]%N. (* <> *)
Definition s_gtgt : str := [62; 62]%N. (* >> *)
Definition s_ltlt : str := [60; 60]%N. (* << *)
Definition s_ltltdash : str := [60; 60; 45]%N. (* <<- *)
Definition s_gtpipe : str := [62; 124]%N. (* >| *)
Definition s_if : str := [105; 102]%N. (* if *)
Definition s_then : str := [116; 104; 101; 110]%N. (* then *)
Definition s_elif : str := [101; 108; 105; 102]%N. (* elif *)
Definition s_else : str := [101; 108; 115; 101]%N. (* else *)
Definition s_fi : str := [102; 105]%N. (* fi *)
Definition s_for : str := [102; 111; 114]%N. (* for *)
Definition s_while : str := [119; 104; 105; 108; 101]%N. (* while *)
Definition s_until : str := [117; 110; 116; 105; 108]%N. (* until *)
Definition s_do : str := [100; 111]%N. (* do *)
Definition s_done : str := [100; 111; 110; 101]%N. (* done *)
Definition s_in : str := [105; 110]%N. (* in *)
Definition s_case : str := [99; 97; 115; 101]%N. (* case *)
Definition s_lbrace : str := [123]%N. (* { *)
Definition s_rbrace : str := [125]%N. (* } *)
Definition s_bang : str := [33]%N. (* ! *)
Definition s_esac : str := [101; 115; 97; 99]%N. (* esac *)

(* first `switch token`: operators.  (text, terminal, assignments) *)
Definition operator_table : list (str * (term * (lexer -> lexer))) :=
  [ (s_semi,     (tkSEMI,       set_acs true));
    (s_semisemi, (tkSEMISEMI,   fun lx => set_icp true (set_acs true lx)));
    (s_nl,       (tkNEWLINE,    set_acs true));
    (s_amp,      (tkBACKGROUND, set_acs true));
    (s_pipe,     (tkPIPE,       fun lx => set_acs (negb (inCasePattern lx)) lx));
    (s_lparen,   (tkLPAREN,     fun lx => set_acs (negb (inCasePattern lx)) lx));
    (s_rparen,   (tkRPAREN,     fun lx => set_icp false (set_acs true lx)));
    (s_andand,   (tkAND,        set_acs true));
    (s_oror,     (tkOR,         set_acs true));
    (s_gt,       (tkGT,         set_acs false));
    (s_gtand,    (tkGTAND,      set_acs false));
    (s_lt,       (tkLT,         set_acs false));
    (s_ltand,    (tkLTAND,      set_acs false));
    (s_ltgt,     (tkLTGT,       set_acs false));
    (s_gtgt,     (tkGTGT,       set_acs false));
    (s_ltlt,     (tkLTLT,       set_acs false));
    (s_ltltdash, (tkLTLTDASH,   set_acs false));
    (s_gtpipe,   (tkGTPIPE,     set_acs false)) ].

(* `switch token` inside `if lex.atCommandStart`: reserved words *)
Definition keyword_table : list (str * (term * (lexer -> lexer))) :=
  [ (s_if,     (tkIF,     fun lx => lx));
    (s_then,   (tkTHEN,   fun lx => lx));
    (s_elif,   (tkELIF,   fun lx => lx));
    (s_else,   (tkELSE,   fun lx => lx));
    (s_fi,     (tkFI,     fun lx => lx));
    (s_for,    (tkFOR,    fun lx => set_for 0 (set_acs false lx)));
    (s_while,  (tkWHILE,  fun lx => lx));
    (s_until,  (tkUNTIL,  fun lx => lx));
    (s_do,     (tkDO,     fun lx => lx));
    (s_done,   (tkDONE,   fun lx => lx));
    (s_in,     (tkIN,     set_acs false));
    (s_case,   (tkCASE,   fun lx => set_case 0 (set_acs false lx)));
    (s_lbrace, (tkLBRACE, fun lx => lx));
    (s_rbrace, (tkRBRACE, fun lx => lx));
    (s_bang,   (tkEXCLAM, fun lx => lx)) ].

Fixpoint lookup {A : Type} (tbl : list (str * A)) (s : str) : option A :=
  match tbl with
  | [] => None
  | (k, v) :: t => if str_eqb s k then Some v else lookup t s
  end.

(* match2(token, `^(\d+)(<<-|<<|<>|<&|>>|>&|>\||<|>)$`): the digits and the operator *)
Definition redirect_ops : list str :=
  [s_ltltdash; s_ltlt; s_ltgt; s_ltand; s_gtgt; s_gtand; s_gtpipe; s_lt; s_gt].
Definition match_io_number (token : str) : option (str * str) :=
  let (ds, op) := span is_digit token in
  match ds with
  | [] => None
  | _ => if existsb (str_eqb op) redirect_ops then Some (ds, op) else None
  end.

(* matches(token, `^[A-Za-z_]\w*=`) *)
Definition is_word_char (c : N) : bool := is_alnum c || (c =? 95)%N.
Definition assignment_shaped (token : str) : bool :=
  match token with
  | c :: r => (is_alpha c || (c =? 95)%N) &&
              match snd (span is_word_char r) with (61%N) :: _ => true | _ => false end
  | [] => false
  end.

Definition starts_with_hash (token : str) : bool :=
  match token with (35%N) :: _ => true | _ => false end.

Inductive lex_result : Set :=
| LexTok (t : term) (lx : lexer)    (* a terminal was returned *)
| LexEOF (lx : lexer)               (* 0 was returned *)
| LexPanic.                         (* nil pointer dereference in the word case *)

(* the increments after the keyword switch *)
Definition bump (lx : lexer) : lexer :=
  let lx := if 0 <=? sinceFor lx then set_for (sinceFor lx + 1) lx else lx in
  if 0 <=? sinceCase lx then set_case (sinceCase lx + 1) lx else lx.

(* the final tagless `switch`; aa = the local `afterAssign` (the previous token was an
   assignment word) *)
Definition lex_word (token : str) (kind : wkind) (aa : bool) (lx : lexer) : lex_result :=
  if (sinceFor lx =? 2) && str_eqb token s_in then LexTok tkIN (set_acs false lx)
  else if (sinceFor lx =? 2) && str_eqb token s_do then LexTok tkDO (set_acs true lx)
  else if (sinceCase lx =? 2) && str_eqb token s_in then LexTok tkIN (set_icp true (set_acs false lx))
  else if ((atCommandStart lx && negb aa) || (sinceCase lx =? 3)) && str_eqb token s_esac
    then LexTok tkESAC (set_icp false (set_acs true lx))
  else if atCommandStart lx && negb (inCasePattern lx) && assignment_shaped token
    then LexTok tkASSIGNMENT_WORD (set_aa true lx)
  else if starts_with_hash token then LexEOF lx
  else
    let lx1 := set_acs false lx in
    if 0 <=? sinceCase lx1 then
      match kind with
      | WkNil => LexPanic
      | WkLoopExpr => LexTok tkWORD (set_acs true lx1)
      | WkPlain => LexTok tkWORD lx1
      end
    else LexTok tkWORD lx1.

Definition Lex (lx : lexer) : lex_result :=
  match remaining lx with
  | [] => LexEOF lx
  | first :: rest =>
    (* token := lex.ioRedirect; lex.ioRedirect = ""; if token == "" { take remaining[0] } *)
    let '(token, kind, lx) :=
      match ioRedirect lx with
      | [] => (t_text first, t_kind first, set_remaining rest (set_io [] lx))
      | io => (io, WkPlain, set_io [] lx)
      end in
    (* afterAssign := lex.afterAssign; lex.afterAssign = false *)
    let aa := afterAssign lx in
    let lx := set_aa false lx in
    match lookup operator_table token with
    | Some (t, eff) => LexTok t (eff lx)
    | None =>
      match match_io_number token with
      | Some (_, op) => LexTok tkIO_NUMBER (set_io op lx)
      | None =>
        let lx := if atCommandStart lx then set_for (-1) (set_case (-1) lx) else lx in
        (* reserved words only where a command may start: not in a case pattern, not
           directly after an assignment word *)
        match (if atCommandStart lx && negb (inCasePattern lx) && negb aa
               then lookup keyword_table token else None) with
        | Some (t, eff) => LexTok t (eff lx)
        | None => lex_word token kind aa (bump lx)
        end
      end
    end
  end.

(* The terminals the parser is given: Lex is called until it returns 0.
   Every call consumes a token of `remaining` or the pending `ioRedirect`, so
   2 * |tokens| + 1 calls always suffice (Proofs/ShellLexTotal.v: shell_lex_total). *)
Inductive lexed : Set :=
| Lexed (ts : list term)
| LexedPanic
| LexedOutOfFuel.

Fixpoint lex_stream (fuel : nat) (lx : lexer) : lexed :=
  match fuel with
  | O => LexedOutOfFuel
  | S fuel' =>
    match Lex lx with
    | LexEOF _ => Lexed []
    | LexPanic => LexedPanic
    | LexTok t lx' =>
      match lex_stream fuel' lx' with
      | Lexed ts => Lexed (t :: ts)
      | other => other
      end
    end
  end.

Definition shell_lex (tokens : list tok) : lexed :=
  lex_stream (2 * length tokens + 1) (new_lexer tokens).
