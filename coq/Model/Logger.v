(* The Logger state machine: model of /repo/v23/logging.go (Logger.Diag, Explain,
   FirstTime, Relevant, shallBeLogged, writeSource, writeDiff, writeLine, Logf,
   TechErrorf, ShowSummary, SeparatorWriter) and of the calls that
   Autofix.Apply / SaveAutofixChanges (autofix.go) make into the Logger.
   No proofs here.  Used by C08 and C06 (and meant to be reused by the Autofix
   machine of C02-C04: see "Interface" below).

   Interface
   ---------
   opts      the LoggerOpts record (ShowAutofix Autofix Explain ShowSource GccOutput Quiet Only)
   line      what the Logger reads of a *Line: an identity (pointer equality
             `line == l.prevLine`), Filename(), Location.lineno, the raw lines
   fixview   what writeSource reads of line.fix in the autofix modes: above, texts, below
   event     what checks do to the Logger:
               EvDiag line level format msg        line.Errorf/Warnf/Notef: Logger.Diag; msg = sprintf(format, args...)
               EvExplain lines                     Logger.Explain
               EvFix line view level format msg explanation actions
                                                   Autofix.Apply with the diagnostic given by Errorf/Warnf/Notef/Silent,
                                                   the explanation and the (description, lineno) of every action
                                                   recorded since the last Apply; `view` is line.fix at that moment
               EvSaved modified                    SaveAutofixChanges on lines of which one is / none is modified
               EvTechError location msg            Logger.TechErrorf
               EvSummary args                      Logger.ShowSummary(args)
   log_step o l ev, log_run o evs                         the machine
   Observables: l_out / l_err (sw_out = the bytes that reached the underlying
   writer), the counters, l_expl_avail, l_fix_avail, exit_status; plus the ghost
   field l_emitted (one tuple (level, file, linenos, msg) per line Logf wrote) and
   the ghost flag l_panicked.

   What is abstracted
   ------------------
   - sprintf is not modelled: an event carries the format (used by --only and by
     the SilentAutofixFormat test) and the finished message.
   - Once (logged, explained) is the exact set of the NUL-joined keys; crc64 is not modelled.
   - file names are clean already: filename.Clean() and CleanPath() are the identity on them.
   - Logger.verbose = false, G.Profiling = false, G.Testing = false (the binary).
   - a panic (assert in SeparatorWriter.Separate, index out of range in writeDiff
     and ShowSummary) sets the ghost flag l_panicked and the machine goes on as if
     the assertion had held; Proofs/Logger.v shows the flag stays false for
     well-formed events, every theorem states it. *)
From PV Require Import Lib.Bytes Lib.Utf8 Model.Escape.
Open Scope N_scope.

(* ---------- small string functions ---------- *)

(* strings.Contains *)
Fixpoint contains (s sub : str) : bool :=
  has_prefix sub s || match s with [] => false | _ :: s' => contains s' sub end.

Fixpoint has_suffix_nl (s : str) : bool :=   (* hasSuffix(s, "\n") *)
  match s with
  | [] => false
  | [c] => c =? 10
  | _ :: s' => has_suffix_nl s'
  end.

Fixpoint join (sep : str) (l : list str) : str :=
  match l with
  | [] => []
  | [a] => a
  | a :: l' => a ++ sep ++ join sep l'
  end.

(* decimal digits of a natural number, most significant first (strconv.Itoa, %d):
   the standard library's binary-to-decimal conversion N.to_uint, digit by digit
   (the same printer as Spec/OutputGrammar.v print_dec) *)
Fixpoint uint_digits (u : Decimal.uint) : str :=
  match u with
  | Decimal.Nil => []
  | Decimal.D0 u => 48 :: uint_digits u
  | Decimal.D1 u => 49 :: uint_digits u
  | Decimal.D2 u => 50 :: uint_digits u
  | Decimal.D3 u => 51 :: uint_digits u
  | Decimal.D4 u => 52 :: uint_digits u
  | Decimal.D5 u => 53 :: uint_digits u
  | Decimal.D6 u => 54 :: uint_digits u
  | Decimal.D7 u => 55 :: uint_digits u
  | Decimal.D8 u => 56 :: uint_digits u
  | Decimal.D9 u => 57 :: uint_digits u
  end.
Definition dec_of_N (n : N) : str := uint_digits (N.to_uint n).
Definition dec_of_Z (z : Z) : str :=
  match z with
  | Z0 => [48] (*0*)
  | Zpos p => dec_of_N (Npos p)
  | Zneg p => 45 :: dec_of_N (Npos p)
  end.

Definition nonempty_list {A : Type} (l : list A) : bool := match l with [] => false | _ => true end.

(* ---------- options, levels, lines ---------- *)

Record opts := mk_opts {
  lo_show_autofix : bool;
  lo_autofix : bool;
  lo_explain : bool;
  lo_show_source : bool;
  lo_gcc : bool;
  lo_quiet : bool;
  lo_only : list str
}.

Definition is_autofix (o : opts) : bool := lo_autofix o || lo_show_autofix o.

Inductive level := LError | LWarn | LNote | LAutofix.

Definition level_eqb (a b : level) : bool :=
  match a, b with
  | LError, LError | LWarn, LWarn | LNote, LNote | LAutofix, LAutofix => true
  | _, _ => false
  end.

Definition traditional_name (lv : level) : str :=
  match lv with LError => [69; 82; 82; 79; 82] (*ERROR*) | LWarn => [87; 65; 82; 78] (*WARN*) | LNote => [78; 79; 84; 69] (*NOTE*) | LAutofix => [65; 85; 84; 79; 70; 73; 88] (*AUTOFIX*) end.
Definition gcc_name (lv : level) : str :=
  match lv with LError => [101; 114; 114; 111; 114] (*error*) | LWarn => [119; 97; 114; 110; 105; 110; 103] (*warning*) | LNote => [110; 111; 116; 101] (*note*) | LAutofix => [97; 117; 116; 111; 102; 105; 120] (*autofix*) end.

Record line := mk_line {
  ln_id : N;            (* pointer identity *)
  ln_file : str;        (* Filename(), clean *)
  ln_lineno : Z;        (* Location.lineno: 0 = whole file, -1 = EOF, else the first line number *)
  ln_raws : list str    (* RawLine.orignl of every raw line, each including its newline *)
}.

Record fixview := mk_fixview {
  fv_above : list str;
  fv_texts : list str;
  fv_below : list str
}.

Definition no_fix : fixview := mk_fixview [] [] [].

(* Line.Linenos *)
Definition linenos (ln : line) : str :=
  let first := ln_lineno ln in
  if (first =? -1)%Z then [69; 79; 70] (*EOF*)
  else if (first =? 0)%Z then []
  else
    let n := length (ln_raws ln) in
    if Nat.eqb n 1 then dec_of_Z first
    else dec_of_Z first ++ [45; 45] (*--*) ++ dec_of_Z (first + Z.of_nat n - 1).

(* ---------- SeparatorWriter ---------- *)

Record swriter := mk_sw {
  sw_state : N;    (* 0 = beginning of line, 1 = in line, 2 = separator wanted, 3 = paragraph *)
  sw_line : str;   (* the line buffer, flushed at every newline *)
  sw_out : str     (* what reached the underlying writer *)
}.

Definition new_sw : swriter := mk_sw 3 [] [].

Definition sw_write_byte (w : swriter) (b : N) : swriter :=
  if b =? 10 then
    mk_sw (if sw_state w =? 1 then 0 else 3) [] (sw_out w ++ sw_line w ++ [10])
  else if sw_state w =? 2 then
    mk_sw 1 [b] (sw_out w ++ sw_line w ++ [10])
  else
    mk_sw 1 (sw_line w ++ [b]) (sw_out w).

Definition sw_write (w : swriter) (text : str) : swriter := fold_left sw_write_byte text w.
Definition sw_write_line (w : swriter) (text : str) : swriter := sw_write_byte (sw_write w text) 10.

(* Separate: (writer, assertion violated) *)
Definition sw_separate (w : swriter) : swriter * bool :=
  (if sw_state w <? 2 then mk_sw 2 (sw_line w) (sw_out w) else w, sw_state w =? 1).

(* ---------- the Logger ---------- *)

Definition diag_tuple := (level * str * str * str)%type. (* level, file, linenos, message *)

Record logger := mk_logger {
  l_suppress_diag : bool;
  l_suppress_expl : bool;
  l_prev_line : option N;
  l_logged : list str;
  l_explained : list str;
  l_errors : N;
  l_warnings : N;
  l_notes : N;
  l_expl_avail : bool;
  l_fix_avail : bool;
  l_out : swriter;
  l_err : swriter;
  l_emitted : list diag_tuple;  (* ghost *)
  l_panicked : bool             (* ghost *)
}.

Definition new_logger : logger :=
  mk_logger false false None [] [] 0 0 0 false false new_sw new_sw [] false.

(* field updates *)
Definition set_suppress_diag (l : logger) (v : bool) : logger :=
  mk_logger v (l_suppress_expl l) (l_prev_line l) (l_logged l) (l_explained l) (l_errors l) (l_warnings l) (l_notes l) (l_expl_avail l) (l_fix_avail l) (l_out l) (l_err l) (l_emitted l) (l_panicked l).
Definition set_suppress_expl (l : logger) (v : bool) : logger :=
  mk_logger (l_suppress_diag l) v (l_prev_line l) (l_logged l) (l_explained l) (l_errors l) (l_warnings l) (l_notes l) (l_expl_avail l) (l_fix_avail l) (l_out l) (l_err l) (l_emitted l) (l_panicked l).
Definition set_prev_line (l : logger) (v : option N) : logger :=
  mk_logger (l_suppress_diag l) (l_suppress_expl l) v (l_logged l) (l_explained l) (l_errors l) (l_warnings l) (l_notes l) (l_expl_avail l) (l_fix_avail l) (l_out l) (l_err l) (l_emitted l) (l_panicked l).
Definition set_logged (l : logger) (v : list str) : logger :=
  mk_logger (l_suppress_diag l) (l_suppress_expl l) (l_prev_line l) v (l_explained l) (l_errors l) (l_warnings l) (l_notes l) (l_expl_avail l) (l_fix_avail l) (l_out l) (l_err l) (l_emitted l) (l_panicked l).
Definition set_explained (l : logger) (v : list str) : logger :=
  mk_logger (l_suppress_diag l) (l_suppress_expl l) (l_prev_line l) (l_logged l) v (l_errors l) (l_warnings l) (l_notes l) (l_expl_avail l) (l_fix_avail l) (l_out l) (l_err l) (l_emitted l) (l_panicked l).
Definition set_errors (l : logger) (v : N) : logger :=
  mk_logger (l_suppress_diag l) (l_suppress_expl l) (l_prev_line l) (l_logged l) (l_explained l) v (l_warnings l) (l_notes l) (l_expl_avail l) (l_fix_avail l) (l_out l) (l_err l) (l_emitted l) (l_panicked l).
Definition set_warnings (l : logger) (v : N) : logger :=
  mk_logger (l_suppress_diag l) (l_suppress_expl l) (l_prev_line l) (l_logged l) (l_explained l) (l_errors l) v (l_notes l) (l_expl_avail l) (l_fix_avail l) (l_out l) (l_err l) (l_emitted l) (l_panicked l).
Definition set_notes (l : logger) (v : N) : logger :=
  mk_logger (l_suppress_diag l) (l_suppress_expl l) (l_prev_line l) (l_logged l) (l_explained l) (l_errors l) (l_warnings l) v (l_expl_avail l) (l_fix_avail l) (l_out l) (l_err l) (l_emitted l) (l_panicked l).
Definition set_expl_avail (l : logger) (v : bool) : logger :=
  mk_logger (l_suppress_diag l) (l_suppress_expl l) (l_prev_line l) (l_logged l) (l_explained l) (l_errors l) (l_warnings l) (l_notes l) v (l_fix_avail l) (l_out l) (l_err l) (l_emitted l) (l_panicked l).
Definition set_fix_avail (l : logger) (v : bool) : logger :=
  mk_logger (l_suppress_diag l) (l_suppress_expl l) (l_prev_line l) (l_logged l) (l_explained l) (l_errors l) (l_warnings l) (l_notes l) (l_expl_avail l) v (l_out l) (l_err l) (l_emitted l) (l_panicked l).
Definition set_out (l : logger) (v : swriter) : logger :=
  mk_logger (l_suppress_diag l) (l_suppress_expl l) (l_prev_line l) (l_logged l) (l_explained l) (l_errors l) (l_warnings l) (l_notes l) (l_expl_avail l) (l_fix_avail l) v (l_err l) (l_emitted l) (l_panicked l).
Definition set_err (l : logger) (v : swriter) : logger :=
  mk_logger (l_suppress_diag l) (l_suppress_expl l) (l_prev_line l) (l_logged l) (l_explained l) (l_errors l) (l_warnings l) (l_notes l) (l_expl_avail l) (l_fix_avail l) (l_out l) v (l_emitted l) (l_panicked l).
Definition set_emitted (l : logger) (v : list diag_tuple) : logger :=
  mk_logger (l_suppress_diag l) (l_suppress_expl l) (l_prev_line l) (l_logged l) (l_explained l) (l_errors l) (l_warnings l) (l_notes l) (l_expl_avail l) (l_fix_avail l) (l_out l) (l_err l) v (l_panicked l).
Definition set_panicked (l : logger) (v : bool) : logger :=
  mk_logger (l_suppress_diag l) (l_suppress_expl l) (l_prev_line l) (l_logged l) (l_explained l) (l_errors l) (l_warnings l) (l_notes l) (l_expl_avail l) (l_fix_avail l) (l_out l) (l_err l) (l_emitted l) v.

Definition out_write (l : logger) (s : str) : logger := set_out l (sw_write (l_out l) s).
Definition out_write_line (l : logger) (s : str) : logger := set_out l (sw_write_line (l_out l) s).
Definition out_separate (l : logger) : logger :=
  let (w, bad) := sw_separate (l_out l) in
  set_panicked (set_out l w) (l_panicked l || bad).

(* Once.FirstTimeSlice: the key is the parts joined by a NUL byte *)
Definition once_key (parts : list str) : str := join [0] parts.
Definition once_seen (set : list str) (key : str) : bool := existsb (str_eqb key) set.

(* ---------- shallBeLogged, Relevant, FirstTime ---------- *)

Definition shall_be_logged (o : opts) (format : str) : bool :=
  match lo_only o with
  | [] => true
  | only => existsb (contains format) only
  end.

Definition relevant (o : opts) (l : logger) (format : str) : bool * logger :=
  let r := shall_be_logged o format in
  (r, set_suppress_expl (set_suppress_diag l (negb r)) (negb r)).

Definition first_time (l : logger) (filename lnos msg : str) : bool * logger :=
  let key := once_key [filename; lnos; msg] in
  if once_seen (l_logged l) key then
    (false, set_suppress_expl (set_suppress_diag l true) true)
  else
    (true, set_logged l (key :: l_logged l)).

(* ---------- writeLine, writeDiff, writeSource ---------- *)

Definition write_line (l : logger) (prefix text : str) : logger :=
  let l := out_write l prefix in
  let l := out_write l (escape_printable text) in
  if has_suffix_nl text then l else out_write l [10].

Definition write_lines (l : logger) (prefix : str) (texts : list str) : logger :=
  fold_left (fun l t => write_line l prefix t) texts l.

(* showAsChanged for every raw line; None = line.fix.texts[rawIndex] is out of range *)
Fixpoint changed_flags (raws texts : list str) : option (list bool) :=
  match raws with
  | [] => Some []
  | r :: raws' =>
    match texts with
    | [] => None
    | t :: texts' => option_map (cons (negb (str_eqb t r))) (changed_flags raws' texts')
    end
  end.

Fixpoint write_diff_lines (l : logger) (prefix : str) (raws texts : list str) (flags : list bool) : logger :=
  match raws, flags with
  | r :: raws', f :: flags' =>
    let t := hd [] texts in
    let l :=
      if f then
        let l := write_line l [45; 9] r in
        if nonempty_list t then write_line l [43; 9] t else l
      else write_line l prefix r in
    write_diff_lines l prefix raws' (tl texts) flags'
  | _, _ => l
  end.

Definition write_diff (o : opts) (l : logger) (ln : line) (fv : fixview) : logger :=
  let raws := ln_raws ln in
  if is_autofix o then
    match changed_flags raws (fv_texts fv) with
    | None => set_panicked l true
    | Some flags =>
      let prefix := if existsb (fun b => b) flags then [9] else [62; 9] in
      write_diff_lines l prefix raws (fv_texts fv) flags
    end
  else
    write_diff_lines l [62; 9] raws [] (map (fun _ => false) raws).

Definition write_source (o : opts) (l : logger) (ln : line) (fv : fixview) : logger :=
  if negb (lo_show_source o) then l
  else if is_autofix o then
    let l := write_lines l [43; 9] (fv_above fv) in
    let l := write_diff o l ln fv in
    let l := write_lines l [43; 9] (fv_below fv) in
    out_separate l
  else
    if match l_prev_line l with Some p => p =? ln_id ln | None => false end then l
    else
      let l := set_prev_line l (Some (ln_id ln)) in
      let l := out_separate l in
      write_diff o l ln fv.

(* ---------- Logf ---------- *)

Definition format_diag (o : opts) (lv : level) (filename effLineno msg : str) : str :=
  let filenameSep := if nonempty_list filename then [58; 32] (*: *) else [] in
  let linenoSep := if nonempty_list effLineno then [58] (*:*) else [] in
  if lo_gcc o then
    filename ++ linenoSep ++ effLineno ++ filenameSep ++ gcc_name lv ++ [58; 32] (*: *) ++ msg ++ [10]
  else
    traditional_name lv ++ filenameSep ++ filename ++ linenoSep ++ effLineno ++ [58; 32] (*: *) ++ msg ++ [10].

Definition bump (l : logger) (lv : level) : logger :=
  match lv with
  | LError => set_errors l (l_errors l + 1)
  | LWarn => set_warnings l (l_warnings l + 1)
  | LNote => set_notes l (l_notes l + 1)
  | LAutofix => l
  end.

Definition logf (o : opts) (l : logger) (lv : level) (filename lineno msg : str) : logger :=
  if l_suppress_diag l then set_suppress_diag l false
  else
    let filename := if str_eqb filename [46] (*.*) then [] else filename in
    let effLineno := if nonempty_list filename then lineno else [] in
    let l := out_write l (escape_printable (format_diag o lv filename effLineno msg)) in
    let l := bump l lv in
    set_emitted l (l_emitted l ++ [(lv, filename, effLineno, msg)]).

(* ---------- Explain ---------- *)

Definition is_space (c : N) : bool := (c =? 9) || (c =? 10) || (c =? 32).

(* the Lexer loop of wrap: (NextBytesSet(Space), NextBytesSet(notSpace)) pairs until EOF *)
Fixpoint space_word_pairs (s : str) (sp wd : str) (in_word : bool) : list (str * str) :=
  match s with
  | [] => if nonempty_list sp || nonempty_list wd then [(sp, wd)] else []
  | c :: s' =>
    if is_space c then
      if in_word then (sp, wd) :: space_word_pairs s' [c] [] false
      else space_word_pairs s' (sp ++ [c]) [] false
    else space_word_pairs s' sp (wd ++ [c]) true
  end.

Fixpoint wrap_pairs (max : nat) (pairs : list (str * str)) (bol : bool) (sb : str) (acc : list str) : str * list str :=
  match pairs with
  | [] => (sb, acc)
  | (sp, wd) :: ps =>
    let sp := if bol && nonempty_list sb then [32] else sp in
    let '(sb, acc, sp) :=
      if nonempty_list sb && (max <? length sb + length sp + length wd)%nat
      then ([], acc ++ [sb], [])
      else (sb, acc, sp) in
    wrap_pairs max ps false (sb ++ sp ++ wd) acc
  end.

Fixpoint wrap_lines (max : nat) (lines : list str) (sb : str) (acc : list str) : list str :=
  match lines with
  | [] => if nonempty_list sb then acc ++ [sb] else acc
  | ln :: lines' =>
    match ln with
    | [] => wrap_lines max lines' [] ((if nonempty_list sb then acc ++ [sb] else acc) ++ [ln])
    | c :: _ =>
      if (c =? 32) || (c =? 9) || (c =? 42) then
        wrap_lines max lines' [] ((if nonempty_list sb then acc ++ [sb] else acc) ++ [ln])
      else
        let (sb', acc') := wrap_pairs max (space_word_pairs ln [] [] false) true sb acc in
        wrap_lines max lines' sb' acc'
    end
  end.

Definition wrap (max : nat) (lines : list str) : list str := wrap_lines max lines [] [].

Definition explanation_width : nat := 68. (* 80 - 8 - 4 *)

Definition explain (o : opts) (l : logger) (explanation : list str) : logger :=
  if l_suppress_expl l then l
  else
    let l := set_expl_avail l true in
    if negb (lo_explain o) then l
    else
      let key := once_key explanation in
      if once_seen (l_explained l) key then l
      else
        let l := set_explained l (key :: l_explained l) in
        let l := set_prev_line l None in
        let l := out_separate l in
        let l := fold_left (fun l e =>
                   let l := if nonempty_list e then out_write l [9] else l in
                   out_write_line l (escape_printable e))
                 (wrap explanation_width explanation) l in
        out_write_line l [].

(* ---------- Diag ---------- *)

Definition diag (o : opts) (l : logger) (ln : line) (lv : level) (format msg : str) : logger :=
  if is_autofix o then set_suppress_expl l true
  else
    let (r, l) := relevant o l format in
    if negb r then l
    else
      let (ft, l) := first_time l (ln_file ln) (linenos ln) msg in
      if negb ft then set_suppress_diag l false
      else
        let l :=
          if lo_show_source o then
            let l := if match l_prev_line l with Some p => p =? ln_id ln | None => false end
                     then l else out_separate l in
            write_source o l ln no_fix
          else l in
        logf o l lv (ln_file ln) (linenos ln) msg.

(* ---------- Autofix.Apply, as far as the Logger is concerned ---------- *)

Definition silent_autofix_format : str := [83; 105; 108; 101; 110; 116; 65; 117; 116; 111; 102; 105; 120; 70; 111; 114; 109; 97; 116] (*SilentAutofixFormat*).

(* Autofix.affectedLinenos *)
Definition affected_linenos (ln : line) (actions : list (str * Z)) : str :=
  match actions with
  | [] => linenos ln
  | _ =>
    let '(first, last) :=
      fold_left (fun (fl : Z * Z) (a : str * Z) =>
                   let '(first, last) := fl in
                   let n := snd a in
                   if (n =? 0)%Z then (first, last)
                   else
                     let first := if (last =? 0)%Z || (n <? first)%Z then n else first in
                     let last := if (last =? 0)%Z || (last <? n)%Z then n else last in
                     (first, last))
                actions (0%Z, 0%Z) in
    if (last =? 0)%Z then linenos ln
    else if (first <? last)%Z then dec_of_Z first ++ [45; 45] (*--*) ++ dec_of_Z last
    else dec_of_Z first
  end.

Definition apply_fix (o : opts) (l : logger) (ln : line) (fv : fixview) (lv : level)
           (format msg : str) (explanation : list str) (actions : list (str * Z)) : logger :=
  let (r, l) := relevant o l format in
  if negb (r && (nonempty_list actions || negb (is_autofix o))) then l
  else
    let logDiagnostic :=
      if str_eqb format silent_autofix_format then false
      else if lo_autofix o && negb (lo_show_autofix o) then false
      else true in
    let logFix := is_autofix o in
    let l :=
      if logDiagnostic then
        let lnos := affected_linenos ln actions in
        let l :=
          if logFix then l
          else
            let (ft, l) := first_time l (ln_file ln) lnos msg in
            if ft then write_source o l ln fv else l in
        logf o l lv (ln_file ln) lnos msg
      else l in
    let l :=
      if logFix then
        let l := fold_left (fun l (a : str * Z) =>
                   logf o l LAutofix (ln_file ln) (if (snd a =? 0)%Z then [] else dec_of_Z (snd a)) (fst a))
                 actions l in
        write_source o l ln fv
      else l in
    if logDiagnostic && nonempty_list explanation then explain o l explanation else l.

(* SaveAutofixChanges: the fast lane taken without --autofix *)
Definition saved (o : opts) (l : logger) (modified : bool) : logger :=
  if negb (lo_autofix o) && modified then set_fix_avail l true else l.

(* ---------- TechErrorf ---------- *)

Definition tech_error (l : logger) (location msg : str) : logger :=
  let loc := location ++ (if nonempty_list location then [58; 32] (*: *) else []) in
  set_err l (sw_write (l_err l) (escape_printable ([69; 82; 82; 79; 82; 58; 32] (*ERROR: *) ++ loc ++ msg ++ [10]))).

(* ---------- ShowSummary ---------- *)

Definition shquote_safe (c : N) : bool :=   (* [!%+,\-./0-9:=@A-Z_a-z] *)
  (c =? 33) || (c =? 37) || (c =? 43) || (c =? 44) || (c =? 45) || (c =? 46) || (c =? 47) ||
  is_digit c || (c =? 58) || (c =? 61) || (c =? 64) || is_upper c || (c =? 95) || is_lower c.

Definition shquote (s : str) : str :=
  if nonempty_list s && forallb shquote_safe s then s
  else [39] ++ flat_map (fun c => if c =? 39 then [39; 92; 39; 39] else [c]) s ++ [39].

Definition num (n : N) (singular plural : str) : str :=
  if n =? 0 then []
  else if n =? 1 then dec_of_N n ++ [32] ++ singular
  else dec_of_N n ++ [32] ++ plural.

(* joinCambridge: "a", "a and b", "a, b and c" over the non-empty elements *)
Definition join_cambridge (conn : str) (elements : list str) : str :=
  match filter nonempty_list elements with
  | [] => []
  | [a] => a
  | l => join [44; 32] (*, *) (removelast l) ++ [32] ++ conn ++ [32] ++ last l []
  end.

Definition summary_counts (errors warnings notes : N) : str :=
  join_cambridge [97; 110; 100] (*and*) [num errors [101; 114; 114; 111; 114] (*error*) [101; 114; 114; 111; 114; 115] (*errors*); num warnings [119; 97; 114; 110; 105; 110; 103] (*warning*) [119; 97; 114; 110; 105; 110; 103; 115] (*warnings*); num notes [110; 111; 116; 101] (*note*) [110; 111; 116; 101; 115] (*notes*)]
  ++ [32; 102; 111; 117; 110; 100; 46; 10].

(* the closure commandLine; None = args[0] does not exist (index out of range) *)
Definition command_line (args : list str) (arg : str) : option str :=
  match args with
  | [] => None
  | a0 :: rest => Some (escape_printable (join [32] (map shquote (a0 :: arg :: rest))))
  end.

Definition hint (l : logger) (args : list str) (arg : str) (what : str) : logger :=
  match command_line args arg with
  | None => set_panicked l true
  | Some cl => out_write_line l ([40; 82; 117; 110; 32; 34] ++ cl ++ [34; 32; 116; 111; 32] ++ what ++ [46; 41])
  end.

(* the first line of the summary *)
Definition summary_line (errors warnings notes : N) : str :=
  if negb (errors =? 0) || negb (warnings =? 0)
  then summary_counts errors warnings notes
  else [76; 111; 111; 107; 115; 32; 102; 105; 110; 101; 46; 10].

Definition show_summary (o : opts) (l : logger) (args : list str) : logger :=
  if lo_quiet o || lo_autofix o then l
  else
    let l := if lo_show_source o then out_separate l else l in
    let l := out_write l (summary_line (l_errors l) (l_warnings l) (l_notes l)) in
    let l := if l_expl_avail l && negb (lo_explain o)
             then hint l args [45; 101] (*-e*) [115; 104; 111; 119; 32; 101; 120; 112; 108; 97; 110; 97; 116; 105; 111; 110; 115] (*show explanations*) else l in
    if l_fix_avail l then
      let l := if negb (lo_show_autofix o)
               then hint l args [45; 102; 115] (*-fs*) [115; 104; 111; 119; 32; 119; 104; 97; 116; 32; 99; 97; 110; 32; 98; 101; 32; 102; 105; 120; 101; 100; 32; 97; 117; 116; 111; 109; 97; 116; 105; 99; 97; 108; 108; 121] (*show what can be fixed automatically*) else l in
      hint l args [45; 70] (*-F*) [97; 117; 116; 111; 109; 97; 116; 105; 99; 97; 108; 108; 121; 32; 102; 105; 120; 32; 115; 111; 109; 101; 32; 105; 115; 115; 117; 101; 115] (*automatically fix some issues*)
    else l.

(* ---------- events ---------- *)

Inductive event :=
| EvDiag (ln : line) (lv : level) (format msg : str)
| EvExplain (explanation : list str)
| EvFix (ln : line) (fv : fixview) (lv : level) (format msg : str) (explanation : list str) (actions : list (str * Z))
| EvSaved (modified : bool)
| EvTechError (location msg : str)
| EvSummary (args : list str).

Definition log_step (o : opts) (l : logger) (ev : event) : logger :=
  match ev with
  | EvDiag ln lv format msg => diag o l ln lv format msg
  | EvExplain e => explain o l e
  | EvFix ln fv lv format msg e actions => apply_fix o l ln fv lv format msg e actions
  | EvSaved m => saved o l m
  | EvTechError loc msg => tech_error l loc msg
  | EvSummary args => show_summary o l args
  end.

Definition log_run (o : opts) (evs : list event) : logger := fold_left (log_step o) evs new_logger.

(* Pkglint.Main after ShowSummary; werror = p.WarnError (-Werror) *)
Definition exit_status (werror : bool) (l : logger) : N :=
  if werror && negb (l_warnings l =? 0) then 1
  else if negb (l_errors l =? 0) then 1
  else 0.
