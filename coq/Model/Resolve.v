(* Model of resolveExprs (pkglint.go): the expansion loop over `${NAME}` with the
   `visited` set exactly as coded.  No proofs here.

   Go:
     if !containsExpr(text) { return text }
     visited := map[string]bool{}
     replace := func(m) { varname := m[2:len(m)-1]
                          if !visited[varname] { visited[varname] = true
                             (value, found, indeterminate) from mklines.allVars, then pkg.vars:
                             found && !indeterminate -> return value }
                          return "${" + varname + "}" }
     str := text
     for { replaced := replaceAllFunc(str, `\$\{([\w.\-]+)\}`, replace)
           if replaced == str { return replaced }
           str = replaced }

   The two scopes are abstracted to one association list name -> value that holds the
   determinate definitions (first match wins; Model/Scope.v `scope_bindings` computes it from
   the histories of both scopes).  containsExpr runs the makefile lexer (C10's subject): its
   answer is an input of the model.  The `for {}` loop runs on fuel; running out is the
   distinct result OutOfFuel. *)
From Coq Require Import List NArith Bool.
From PV Require Import Lib.Bytes Lib.PanicRes.
Import ListNotations.
Open Scope N_scope.

(* [\w.\-] of RE2: ASCII letters, digits, '_', '.', '-' *)
Definition is_varchar (c : N) : bool := is_alnum c || (c =? 95) || (c =? 46) || (c =? 45).

(* the regular expression \$\{([\w.\-]+)\} anchored at the head of s: the captured name *)
Definition match_at (s : str) : option str :=
  match s with
  | a :: b :: r =>
    if (a =? 36) && (b =? 123) then
      match span is_varchar r with
      | (n :: name, c :: _) => if c =? 125 then Some (n :: name) else None
      | _ => None
      end
    else None
  | _ => None
  end.

Definition expr_text (name : str) : str := 36 :: 123 :: name ++ [125].

Definition rscope := list (str * str).

Fixpoint rlookup (sc : rscope) (v : str) : option str :=
  match sc with
  | [] => None
  | (k, x) :: t => if str_eqb k v then Some x else rlookup t v
  end.

Fixpoint mem (v : str) (l : list str) : bool :=
  match l with [] => false | x :: t => str_eqb x v || mem v t end.

(* the closure `replace`: (visited after the call, replacement text) *)
Definition replace1 (sc : rscope) (vis : list str) (name : str) : list str * str :=
  if mem name vis then (vis, expr_text name)
  else (name :: vis, match rlookup sc name with Some x => x | None => expr_text name end).

(* one ReplaceAllStringFunc pass, leftmost non-overlapping matches, left to right; `skip` = bytes
   of the current match still to be dropped (a match of name n is |n|+3 bytes long) *)
Fixpoint pass (sc : rscope) (vis : list str) (skip : nat) (s : str) : list str * str :=
  match s with
  | [] => (vis, [])
  | c :: t =>
    match skip with
    | S k => pass sc vis k t
    | O =>
      match match_at (c :: t) with
      | Some name =>
        let (vis1, repl) := replace1 sc vis name in
        let (vis2, out) := pass sc vis1 (length name + 2) t in
        (vis2, repl ++ out)
      | None =>
        let (vis2, out) := pass sc vis O t in (vis2, c :: out)
      end
    end
  end.

Fixpoint resolve_loop (fuel : nat) (sc : rscope) (vis : list str) (s : str) : res str :=
  match fuel with
  | O => OutOfFuel
  | S f =>
    let (vis', replaced) := pass sc vis O s in
    if str_eqb replaced s then Ok replaced else resolve_loop f sc vis' replaced
  end.

Definition str_eq_dec : forall a b : str, {a = b} + {a <> b} := list_eq_dec N.eq_dec.

(* the distinct variable names the scope defines *)
Definition keys (sc : rscope) : list str := nodup str_eq_dec (map fst sc).

(* |distinct variables| + 1 passes *)
Definition resolve_fuel (sc : rscope) : nat := S (length (keys sc)).

Definition resolve_exprs (has_expr : bool) (sc : rscope) (text : str) : res str :=
  if negb has_expr then Ok text else resolve_loop (resolve_fuel sc) sc [] text.

(* the number of passes the loop makes (for the evidence; 0 = early return) *)
Fixpoint resolve_passes (fuel : nat) (sc : rscope) (vis : list str) (s : str) : nat :=
  match fuel with
  | O => O
  | S f =>
    let (vis', replaced) := pass sc vis O s in
    if str_eqb replaced s then 1%nat else S (resolve_passes f sc vis' replaced)
  end.
