(* Model of the `Indentation` machine of mkline.go (the stack of open .if/.for
   directives) and of the callers in mklinechecker.go that touch it, for
   property C01.  No proofs here.

   Abstraction of a makefile line (`dline`): what the machine looks at.
     d_kind     Directive() of the line; KNone = not a directive line
                (IsDirective() false: assignments, includes, comments, ...)
     d_no       identity of the line (stands for the *MkLine and its Args())
     d_cond     Cond() of an .if/.elif: None = nil (unparseable); otherwise the
                variable names reported by MkCond.Walk's Expr callback, in
                order, and the relative file names of its exists() calls
     d_guard    mkline == guardLine || isBuildlink3Guard(mkline)
     d_forvars  .for: the variable names matched by checkDirectiveFor's regex
                ([] when the arguments are empty or do not match)
     d_comment  DirectiveComment() != ""
   A variable is (id, ends-in-_MK).

   The Go slice `levels` is kept with the TOP AT THE HEAD of the list
   (levels[len-1] = head).  Every Go panic site is an explicit result:
     Panic 1  top() on an empty stack          (mkline.go, index out of range [-1])
     Panic 2  Pop() on an empty stack          (slice bounds out of range [:-1])
     Panic 3  Push(): assert(mkline.IsDirective())
     Panic 4  Depth(): levels[i] out of range
   OutOfFuel: the loop of CheckFinish did not end within its fuel. *)
From Coq Require Import List ZArith NArith Bool.
From PV Require Import Lib.PanicRes.
Import ListNotations.
Open Scope Z_scope.

Inductive dkind :=
| KIf | KIfdef | KIfndef | KIfmake | KIfnmake | KFor
| KElif | KElse | KEndif | KEndfor
| KOther   (* elifdef elifndef elifmake elifnmake undef error warning info export ... *)
| KNone.   (* not a directive line *)

Record cvar := { v_id : N; v_mk : bool }.

Record dline := {
  d_kind : dkind;
  d_no : N;
  d_cond : option (list cvar * list N);
  d_guard : bool;
  d_forvars : list cvar;
  d_comment : bool
}.

Record level := {
  l_line : N;        (* mkline: the opening .if/.for *)
  l_depth : Z;
  l_args : N;        (* args + argsLine: the line that set them *)
  l_cvars : list N;  (* conditionalVars *)
  l_files : list N;  (* checkedFiles *)
  l_guard : bool
}.

Definition state := list level.   (* head = top of the stack *)

Definition is_directive (l : dline) : bool :=
  match d_kind l with KNone => false | _ => true end.

Definition is_empty (st : state) : bool := match st with [] => true | _ => false end.

(* func (ind *Indentation) top() *indentationLevel *)
Definition top (st : state) : res level :=
  match st with [] => Panic 1 | l :: _ => Ok l end.

(* writing through the pointer returned by top() *)
Definition set_top (st : state) (l : level) : state :=
  match st with [] => [] | _ :: r => l :: r end.

(* func (ind *Indentation) Depth(directive string) int *)
Definition depth_of (st : state) (k : dkind) : res Z :=
  let skip := match k with KElif | KElse | KEndfor | KEndif => 1%nat | _ => 0%nat end in
  if (length st <=? skip)%nat then Ok 0           (* i < 0 *)
  else match nth_error st skip with               (* levels[i] *)
       | Some l => Ok (l_depth l)
       | None => Panic 4
       end.

(* func (ind *Indentation) Pop() *)
Definition pop (st : state) : res state :=
  match st with [] => Panic 2 | _ :: r => Ok r end.

(* func (ind *Indentation) Push(mkline, indent, args, guard) *)
Definition push (st : state) (l : dline) (indent : Z) (guard : bool) : res state :=
  if is_directive l
  then Ok ({| l_line := d_no l; l_depth := indent; l_args := d_no l;
              l_cvars := []; l_files := []; l_guard := guard |} :: st)
  else Panic 3.

(* func (ind *Indentation) AddVar(varname string) *)
Definition add_var (st : state) (v : cvar) : res state :=
  if v_mk v then Ok st
  else bind (top st) (fun t =>
    if existsb (N.eqb (v_id v)) (l_cvars t) then Ok st
    else Ok (set_top st {| l_line := l_line t; l_depth := l_depth t; l_args := l_args t;
                           l_cvars := l_cvars t ++ [v_id v]; l_files := l_files t;
                           l_guard := l_guard t |})).

(* func (ind *Indentation) RememberUsedVariables(cond): AddVar for every Expr of the walk *)
Fixpoint add_vars (st : state) (vs : list cvar) : res state :=
  match vs with
  | [] => Ok st
  | v :: r => bind (add_var st v) (fun st' => add_vars st' r)
  end.

(* func (ind *Indentation) Args() (string, *MkLine): two calls of top() *)
Definition args (st : state) : res N :=
  bind (top st) (fun t => bind (top st) (fun _ => Ok (l_args t))).

(* func (ind *Indentation) AddCheckedFile(filename) *)
Definition add_checked_file (st : state) (f : N) : res state :=
  bind (top st) (fun t =>
    Ok (set_top st {| l_line := l_line t; l_depth := l_depth t; l_args := l_args t;
                      l_cvars := l_cvars t; l_files := l_files t ++ [f];
                      l_guard := l_guard t |})).

Fixpoint add_checked_files (st : state) (fs : list N) : res state :=
  match fs with
  | [] => Ok st
  | f :: r => bind (add_checked_file st f) (fun st' => add_checked_files st' r)
  end.

(* func (ind *Indentation) TrackBefore(mkline) *)
Definition track_before (st : state) (l : dline) : res state :=
  if negb (is_directive l) then Ok st else
  match d_kind l with
  | KFor | KIf | KIfdef | KIfndef | KIfmake | KIfnmake =>
      bind (depth_of st (d_kind l)) (fun d => push st l d (d_guard l))
  | _ => Ok st
  end.

Definition bump (t : level) : level :=
  {| l_line := l_line t; l_depth := l_depth t + 2; l_args := l_args t;
     l_cvars := l_cvars t; l_files := l_files t; l_guard := l_guard t |}.

(* func (ind *Indentation) TrackAfter(mkline); pkgsrc = (G.Pkgsrc != nil) *)
Definition track_after (pkgsrc : bool) (st : state) (l : dline) : res state :=
  if negb (is_directive l) then Ok st else
  (* first switch *)
  bind (match d_kind l with
        | KIf =>
            bind (top st) (fun t =>
              if negb (l_guard t)
              then bind (top st) (fun t' => Ok (set_top st (bump t')))
              else Ok st)
        | KFor | KIfdef | KIfndef =>
            bind (top st) (fun t => Ok (set_top st (bump t)))
        | KElif =>
            if negb (is_empty st)
            then bind (top st) (fun t => bind (top st) (fun _ =>
                   Ok (set_top st {| l_line := l_line t; l_depth := l_depth t; l_args := d_no l;
                                     l_cvars := l_cvars t; l_files := l_files t;
                                     l_guard := l_guard t |})))
            else Ok st
        | KElse =>
            if negb (is_empty st)
            then bind (top st) (fun _ => Ok st)     (* top().mkline.SetHasElseBranch *)
            else Ok st
        | KEndfor | KEndif =>
            if negb (is_empty st) then pop st else Ok st
        | _ => Ok st
        end) (fun st1 =>
  (* second switch *)
  match d_kind l with
  | KIf | KElif =>
      if is_empty st1 then Ok st1 else
      match d_cond l with
      | None => Ok st1
      | Some (vars, files) =>
          bind (add_vars st1 vars) (fun st2 =>
            if negb pkgsrc then Ok st2 else add_checked_files st2 files)
      end
  | _ => Ok st1
  end).

(* func (ind *Indentation) CheckFinish(filename): one error per level still
   open, innermost first; returns the opening lines that were reported *)
Fixpoint check_finish_loop (fuel : nat) (st : state) (acc : list N) : res (list N) :=
  if is_empty st then Ok (rev acc) else
  match fuel with
  | O => OutOfFuel
  | S fuel' =>
      bind (top st) (fun t =>
      bind (pop st) (fun st' => check_finish_loop fuel' st' (l_line t :: acc)))
  end.

Definition check_finish (st : state) : res (list N) :=
  if is_empty st then Ok [] else check_finish_loop (length st) st [].

(* mklinechecker.go: checkDirectiveEnd.  Result: "Unmatched .endif/.endfor" reported? *)
Definition check_directive_end (st : state) (l : dline) : res bool :=
  if is_empty st then Ok true else
  if negb (d_comment l) then Ok false else
  bind (match d_kind l with KEndif => bind (args st) (fun _ => Ok tt) | _ => Ok tt end) (fun _ =>
  bind (match d_kind l with KEndfor => bind (args st) (fun _ => Ok tt) | _ => Ok tt end) (fun _ =>
  Ok false)).

(* mklinechecker.go: checkDirectiveFor: indentation.AddVar(forvar) for each loop variable *)
Definition check_directive_for (st : state) (l : dline) : res state :=
  add_vars st (d_forvars l).

(* mklinechecker.go: checkDirective, as far as the machine is concerned.
   Result: state, expected depth handed to checkDirectiveIndentation, unmatched? *)
Definition check_directive (st : state) (l : dline) : res (state * Z * bool) :=
  bind (depth_of st (d_kind l)) (fun expected =>
  bind (match d_kind l with
        | KEndfor | KEndif => check_directive_end st l
        | _ => Ok false
        end) (fun unmatched =>
  bind (match d_kind l with
        | KFor => check_directive_for st l
        | _ => Ok st
        end) (fun st' =>
  Ok (st', expected, unmatched)))).

(* one iteration of MkLines.ForEachEnd with the action of MkLines.checkAll *)
Record obs := { o_expected : Z; o_unmatched : bool; o_levels : state }.

Definition step (pkgsrc : bool) (st : state) (l : dline) : res (state * obs) :=
  bind (track_before st l) (fun st1 =>
  bind (if is_directive l then check_directive st1 l else Ok (st1, 0, false)) (fun r =>
  let '(st2, expected, unmatched) := r in
  bind (track_after pkgsrc st2 l) (fun st3 =>
  Ok (st3, {| o_expected := expected; o_unmatched := unmatched; o_levels := st3 |})))).

Fixpoint run_from (pkgsrc : bool) (st : state) (ls : list dline) (acc : list obs)
  : res (list obs * list N) :=
  match ls with
  | [] => bind (check_finish st) (fun closed => Ok (rev acc, closed))
  | l :: r => bind (step pkgsrc st l) (fun p => run_from pkgsrc (fst p) r (snd p :: acc))
  end.

(* the whole file: NewIndentation, the loop, CheckFinish *)
Definition run (pkgsrc : bool) (ls : list dline) : res (list obs * list N) :=
  run_from pkgsrc [] ls [].
