(* Model of /repo/v23/files.go (convertToLogicalLines, nextLogicalLine,
   matchContinuationLine), line.go (RawLine, Orig, NewLine, NewLineMulti),
   the bit of autofix.go that writes lines back (NewAutofix, SaveAutofixChanges)
   and the Go library functions they use (strings.SplitAfter, TrimSuffix,
   TrimPrefix, HasSuffix, textproc.Lexer.NextString).
   One Gallina definition per Go function, same case structure.  No proofs here. *)
From PV Require Import Lib.Bytes.
Open Scope N_scope.

Inductive res (A : Type) : Type :=
| Ok (a : A)
| Panic          (* a Go index / slice expression out of range *)
| OutOfFuel.     (* the fuel of a modelled `for` loop ran out *)
Arguments Ok {A} a.
Arguments Panic {A}.
Arguments OutOfFuel {A}.

Definition nl : N := 10.
Definition backslash : N := 92.
Definition hash : N := 35.
Definition space : N := 32.

Definition is_empty {A : Type} (s : list A) : bool := match s with [] => true | _ => false end.

(* ---- Go library --------------------------------------------------------- *)

(* strings.SplitAfter(s, "\n"): cut after every "\n"; the last piece is what
   follows the last "\n" (possibly empty); "" gives [""]. *)
Fixpoint split_after_acc (cur s : str) : list str :=
  match s with
  | [] => [cur]
  | c :: s' => if c =? nl then (cur ++ [c]) :: split_after_acc [] s'
               else split_after_acc (cur ++ [c]) s'
  end.
Definition split_after_nl (s : str) : list str := split_after_acc [] s.

(* strings.HasSuffix(s, suffix) *)
Definition has_suffix (suffix s : str) : bool := has_prefix (rev suffix) (rev s).

(* strings.TrimSuffix(s, suffix) *)
Definition trim_suffix (suffix s : str) : str :=
  if has_suffix suffix s then firstn (length s - length suffix) s else s.

(* strings.TrimPrefix(s, prefix) *)
Definition trim_prefix (prefix s : str) : str :=
  match strip_prefix prefix s with Some r => r | None => s end.

(* textproc.NewLexer(s).NextString(prefix): the prefix if s starts with it, else "" *)
Definition next_string (prefix s : str) : str :=
  if has_prefix prefix s then prefix else [].

(* ---- line.go ------------------------------------------------------------ *)

(* RawLine.orignl is the physical line; Orig() = TrimSuffix(orignl, "\n") *)
Definition orig (orignl : str) : str := trim_suffix [nl] orignl.

(* Line: Location.lineno, Text, raw (the orignl of every RawLine) *)
Record line : Type := mk_line { lineno : N; text : str; raws : list str }.

Definition new_line_multi (first_line : N) (text : str) (raw_lines : list str) : line :=
  mk_line first_line text raw_lines.
Definition new_line (lineno : N) (text : str) (raw_line : str) : line :=
  new_line_multi lineno text [raw_line].

(* ---- files.go ----------------------------------------------------------- *)

Definition is_backslash (c : N) : bool := c =? backslash.

(* the two backwards loops `for j > 0 && p(text[j-1]) { j-- }`: the number of
   bytes at the end of text[0:j] that satisfy p *)
Definition count_back (p : N -> bool) (s : str) : nat := length (fst (span p (rev s))).

(* matchContinuationLine(text) = (leadingWhitespace, result, trailingWhitespace, cont) *)
Definition match_continuation_line (text : str) : str * str * str * str :=
  let end_ := length text in
  let j := (end_ - count_back is_backslash text)%nat in
  let backslashes := Nat.modulo (end_ - j) 2 in
  let j := (end_ - backslashes)%nat in
  let cont := skipn j text in                                  (* text[j:end] *)
  let trailing_end := j in
  let j := (j - count_back is_hspace (firstn j text))%nat in
  let trailing_start := j in
  let trailing_whitespace := skipn trailing_start (firstn trailing_end text) in
  let i := length (fst (span is_hspace (firstn j text))) in   (* for i < j && isHspace(text[i]) *)
  let leading_end := i in
  let leading_whitespace := firstn leading_end text in
  let result := skipn leading_end (firstn trailing_start text) in
  (leading_whitespace, result, trailing_whitespace, cont).

(* the `for i, rawLine := range interestingRawLines` loop of nextLogicalLine;
   `rest` is interestingRawLines[i:], so `i != len(interestingRawLines)-1` is
   "rest has a further element".  Returns (text, lineRawLines, index). *)
Fixpoint nll_loop (rest : list str) (text : str) (line_raw_lines : list str)
         (trim : str) (index : N) : str * list str * N :=
  match rest with
  | [] => (text, line_raw_lines, index)   (* range exhausted without break *)
  | raw_line :: rest' =>
    let '(indent, raw_text, outdent, cont) := match_continuation_line (orig raw_line) in
    let text := if is_empty text then text ++ indent else text in
    let text := text ++ trim_prefix trim raw_text in
    let line_raw_lines := line_raw_lines ++ [raw_line] in
    if negb (is_empty cont) && negb (is_empty rest') then
      nll_loop rest' (text ++ [space]) line_raw_lines (next_string [hash] raw_text) (index + 1)
    else
      (text ++ outdent ++ cont, line_raw_lines, index)
  end.

(* nextLogicalLine(filename, rawLines, index) = (line, nextIndex); index is 0-based *)
Definition next_logical_line (raw_lines : list str) (index : N) : res (line * N) :=
  match nth_error raw_lines (N.to_nat index) with
  | None => Panic                                               (* rawLines[index] *)
  | Some raw_line =>
    let text := orig raw_line in
    if negb (has_suffix [backslash] text) then
      Ok (new_line (index + 1) text raw_line, index + 1)
    else
      let first_lineno := index + 1 in
      let interesting := skipn (N.to_nat index) raw_lines in     (* rawLines[index:] *)
      let '(text, line_raw_lines, index) := nll_loop interesting [] [] [] index in
      Ok (new_line_multi first_lineno text line_raw_lines, index + 1)
  end.

(* `for lineno := 0; lineno < len(rawLines); { … lineno = nextLineno }` *)
Fixpoint mk_loop (fuel : nat) (raw_lines : list str) (lineno : N) (loglines : list line)
  : res (list line) :=
  if N.of_nat (length raw_lines) <=? lineno then Ok loglines else
  match fuel with
  | O => OutOfFuel
  | S fuel' =>
    match next_logical_line raw_lines lineno with
    | Ok (l, next_lineno) => mk_loop fuel' raw_lines next_lineno (loglines ++ [l])
    | Panic => Panic
    | OutOfFuel => OutOfFuel
    end
  end.

(* `for rawIndex, rawLine := range rawLines { NewLine(filename, rawIndex+1, rawLine.Orig(), rawLine) }` *)
Fixpoint plain_loop (raw_lines : list str) (raw_index : N) : list line :=
  match raw_lines with
  | [] => []
  | raw_line :: rest => new_line (raw_index + 1) (orig raw_line) raw_line :: plain_loop rest (raw_index + 1)
  end.

(* convertToLogicalLines(filename, rawText, joinBackslashLines): the lines and
   whether "File must end with a newline." was logged on the last line *)
Definition convert_to_logical_lines (raw_text : str) (join_backslash_lines : bool)
  : res (list line * bool) :=
  let raw_lines := filter (fun r => negb (is_empty r)) (split_after_nl raw_text) in
  let loglines :=
    if join_backslash_lines then mk_loop (length raw_lines) raw_lines 0 []
    else Ok (plain_loop raw_lines 0) in
  match loglines with
  | Ok loglines =>
    if negb (is_empty raw_text) && negb (has_suffix [nl] raw_text) then
      match loglines with
      | [] => Panic                                   (* loglines[len(loglines)-1] *)
      | _ :: _ => Ok (loglines, true)
      end
    else Ok (loglines, false)
  | Panic => Panic
  | OutOfFuel => OutOfFuel
  end.

(* ---- autofix.go: what SaveAutofixChanges writes ------------------------- *)

Record autofix : Type := mk_autofix
  { above : list str; texts : list str; below : list str; modified : bool }.

(* NewAutofix(line): texts[i] = line.raw[i].orignl *)
Definition new_autofix (l : line) : autofix := mk_autofix [] (raws l) [] false.

(* a loaded line together with line.fix (nil = None) *)
Definition fline : Type := (line * option autofix)%type.

(* the body of `for _, line := range lines.Lines` for one file: the strings
   appended to changes[filename] *)
Definition chlines_of (fl : fline) : list str :=
  match snd fl with
  | Some fx => above fx ++ texts fx ++ below fx
  | None => raws (fst fl)
  end.

Definition fix_modified (fl : fline) : bool :=
  match snd fl with Some fx => modified fx | None => false end.

(* SaveAutofixChanges in --autofix mode, all lines from one file:
   None = the file is not in `changed`, nothing is written;
   Some bytes = the text written to the temporary file and renamed over the file *)
Definition save_autofix_changes (ls : list fline) : option str :=
  if existsb fix_modified ls then Some (concat (flat_map chlines_of ls)) else None.
