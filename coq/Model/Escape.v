(* Model of escapePrintable (/repo/v23/util.go) and of the formatting verbs it
   uses (%U, <0x%02X>), over the explicit UTF-8 decoder Lib/Utf8.v.  No proofs.

   func escapePrintable(s string) string {
       for i, r := range s {
           switch {
           case rune(byte(r)) == r && textproc.XPrint.Contains(s[i]):  escaped.WriteByte(byte(r))
           case r == 0xFFFD && !hasPrefix(s[i:], "�"):            "<0x%02X>", s[i]
           default:                                                     "<%U>", r
   textproc.XPrint = NewByteSet("\n\t -~"): newline, tab, and the printable ASCII range 0x20..0x7E. *)
From PV Require Import Lib.Bytes Lib.Utf8.
Open Scope N_scope.

Definition xprint (b : N) : bool := (b =? 10) || (b =? 9) || ((32 <=? b) && (b <=? 126)).

(* upper-case hexadecimal digit *)
Definition hex_digit (d : N) : N := if d <? 10 then 48 + d else 55 + d.

(* %02X of a byte (for a byte, (b / 16) mod 16 = b / 16; written so that both digits are
   hexadecimal digits for every N, which spares the safety theorem a b < 256 hypothesis) *)
Definition fmt_02X (b : N) : str := [hex_digit ((b / 16) mod 16); hex_digit (b mod 16)].

(* %X of a number: most significant digit first, at least one digit *)
Fixpoint hex_aux (fuel : nat) (n : N) (acc : str) : str :=
  match fuel with
  | O => acc
  | S f => let acc' := hex_digit (n mod 16) :: acc in
           if n / 16 =? 0 then acc' else hex_aux f (n / 16) acc'
  end.
Definition hex_upper (n : N) : str := hex_aux (S (N.size_nat n)) n [].

(* %U: "U+" and at least four hexadecimal digits *)
Definition fmt_U (r : N) : str :=
  let h := hex_upper r in [85; 43] (*U+*) ++ repeat 48 (4 - length h) ++ h.

Definition utf8_rune_error : str := [239; 191; 189]. (* "�" *)

(* the output for the rune that starts at the head of s (s non-empty) *)
Definition escape_piece (s : str) (b0 : N) (r : N) : str :=
  if (r <? 256) && xprint b0 then [r]
  else if (r =? rune_error) && negb (has_prefix utf8_rune_error s) then [60; 48; 120] (*<0x*) ++ fmt_02X b0 ++ [62] (*>*)
  else [60] (*<*) ++ fmt_U r ++ [62] (*>*).

(* `for i, r := range s`: at a rune start (skip = 0) decode, emit, and skip the
   remaining width-1 bytes of that rune.  Structural in s, no fuel. *)
Fixpoint escape_from (s : str) (skip : nat) : str :=
  match s with
  | [] => []
  | b0 :: s' =>
    match skip with
    | S k => escape_from s' k
    | O => let (r, w) := decode_rune s in escape_piece s b0 r ++ escape_from s' (w - 1)
    end
  end.

Definition escape_printable (s : str) : str := escape_from s 0.
