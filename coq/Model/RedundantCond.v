(* RedundantScope with conditional sections.

   MkLines.ForEach tracks the .if/.for nesting (Indentation); handleVarassign
   asks ind.IsConditional() and passes it on to Var.Write.  A conditional
   program is the program of Model/Redundant.v in which every line carries that
   flag (the .if / .endif lines themselves are "other" lines; conditions that
   mention variables are outside the fragment: they are reads).  check_line_c
   is check_line with the flag instead of the constant false.  The verdicts are
   kept per line.  No proofs here. *)
From PV Require Import Lib.Bytes Model.Redundant.

Definition cprogram := list (bool * line).

Definition check_line_c (s : scope) (idx : nat) (c : bool) (l : line) : result (scope * list verdict) :=
  match update_include_path s l with
  | Panic => Panic
  | OutOfFuel => OutOfFuel
  | Ok s1 =>
    match l_body l with
    | None => Ok (s1, [])
    | Some a =>
      match handle_varassign s1 idx a c with
      | Panic => Panic
      | OutOfFuel => OutOfFuel
      | Ok (s2, vs) =>
          match handle_expr s2 a with
          | Ok s3 => Ok (s3, vs)
          | Panic => Panic
          | OutOfFuel => OutOfFuel
          end
      end
    end
  end.

(* the diagnostics of every line, in program order *)
Fixpoint check_from_c (s : scope) (idx : nat) (ls : cprogram) : result (list (list verdict)) :=
  match ls with
  | [] => Ok []
  | (c, l) :: ls' =>
    match check_line_c s idx c l with
    | Panic => Panic
    | OutOfFuel => OutOfFuel
    | Ok (s', vs) =>
      match check_from_c s' (S idx) ls' with
      | Panic => Panic
      | OutOfFuel => OutOfFuel
      | Ok rest => Ok (vs :: rest)
      end
    end
  end.

Definition check_lines_c (p : cprogram) : result (list (list verdict)) := check_from_c new_scope 0 p.

Definition check_c (p : cprogram) : result (list verdict) :=
  match check_lines_c p with
  | Ok per_line => Ok (concat per_line)
  | Panic => Panic
  | OutOfFuel => OutOfFuel
  end.
