(* Model of VaralignSplitter.split (/repo/v23/varalignblock.go) with
   parseLeadingComment, parseVarnameOp, parseValue, MkParser.Op and
   varalignParts.String.  Definitions only. *)
From PV Require Import Lib.Bytes Gen.MkByteSets Model.MkLexPrim Model.MkLexer Model.MkLineSplit.
Open Scope N_scope.

Record varalign_parts : Type := mk_parts {
  vp_leading_comment : str;
  vp_varname_op : str;
  vp_space_before_value : str;
  vp_value : str;
  vp_space_after_value : str;
  vp_continuation : str
}.

(* varalignParts.String() *)
Definition parts_string (p : varalign_parts) : str :=
  vp_leading_comment p ++ vp_varname_op p ++ vp_space_before_value p ++
  vp_value p ++ vp_space_after_value p ++ vp_continuation p.

(* parseLeadingComment(lexer, initial): (leadingComment, rest) *)
Definition parse_leading_comment (initial : bool) (s : str) : str * str :=
  if has_prefix [35; 32] s then ([], s)
  else
    match skip_string [35] s with
    | Some r => ([35], r)
    | None =>
      let mark := s in
      let r := if initial then
                 match skip_byte 32 s with
                 | Some r1 => snd (next_bytes is_hspace r1)
                 | None => s
                 end
               else s in
      (since mark r, r)
    end.

(* MkParser.Op(): the rest after the operator *)
Definition mk_op (s : str) : option str :=
  match skip_string [33; 61] s with Some r => Some r | None =>
  match skip_string [58; 61] s with Some r => Some r | None =>
  match skip_string [43; 61] s with Some r => Some r | None =>
  match skip_string [63; 61] s with Some r => Some r | None =>
  skip_string [61] s end end end end.

(* parseVarnameOp(parser, initial): (varnameOp, spaceBeforeValue, rest).
   The variable name and the operator are parsed in the same text as in
   matchVarassign (no comment, "\#" unescaped, no trailing blanks); their end is
   mapped back to the raw text with getRawValueAlign. *)
Definition parse_varname_op (initial : bool) (s : str) : res (str * str * str) :=
  if negb initial then
    let '(sp, r) := next_bytes is_hspace s in Ok ([], sp, r)
  else
    let mark := s in
    '(main0, _) <- unescape_comment s ;;
    let main := rtrim_hspace main0 in
    '(_, m1) <- Varname main ;;
    let m2 := snd (next_bytes is_hspace m1) in
    match mk_op m2 with
    | None => Panic                                      (* assert(ok) *)
    | Some m3 =>
      let parsed := since main m3 in                     (* main[:len(main)-len(rest)] *)
      ra <- get_raw_value_align s parsed ;;
      s3 <- skip (length ra) s ;;
      let '(sp, r) := next_bytes is_hspace s3 in
      Ok (since mark s3, sp, r)
    end.

(* the loop of parseValue: it only checks (asserts), the result does not
   depend on where it stops *)
Fixpoint parse_value_loop (fuel : nat) (s : str) : res str :=
  match fuel with
  | O => OutOfFuel
  | S f =>
    match s with
    | [] => Ok s
    | c :: _ =>
      if (c =? 35) || str_eqb s [92] then Ok s
      else
        let '(plain, r) := next_bytes comment_safe s in
        match plain with
        | _ :: _ => parse_value_loop f r
        | [] =>
          match skip_string [91; 35] s with
          | Some r1 => parse_value_loop f r1
          | None =>
            match skip_byte 91 s with
            | Some r2 => parse_value_loop f r2
            | None =>
              match skip_byte 92 s with
              | None => Panic                            (* assert(lexer.SkipByte('\\')) *)
              | Some r3 => r4 <- skip 1 r3 ;; parse_value_loop f r4
              end
            end
          end
        end
    end
  end.

(* number of trailing backslashes: end - backslash *)
Fixpoint trailing_backslashes (s : str) : nat :=
  match s with
  | [] => O
  | c :: t =>
    let n := trailing_backslashes t in
    if (n =? length t)%nat && (c =? 92) then S n else n
  end.

(* parseValue(lexer): (value, spaceAfterValue, continuation) *)
Definition parse_value (s : str) : res (str * str * str) :=
  let rest := s in
  _ <- parse_value_loop (S (length s)) s ;;
  let n := trailing_backslashes rest in
  if Nat.even n then Ok (rest, [], [])
  else
    (* only the last backslash continues the line; the backslashes before it are
       escaped backslashes that belong to the value: rest[end-1:], rest[:end-1] *)
    let last := (length rest - 1)%nat in
    let continuation := skipn last rest in
    let value_and_space := firstn last rest in
    let value := rtrim_hspace value_and_space in
    let space := skipn (length value) value_and_space in
    Ok (value, space, continuation).

(* split(rawText, initial) *)
Definition varalign_split (raw : str) (initial : bool) : res varalign_parts :=
  if has_suffix [10] raw then Panic                      (* assert(!hasSuffix(rawText, "\n")) *)
  else
    let '(leading_comment, s1) := parse_leading_comment initial raw in
    '(varname_op, space_before_value, s2) <- parse_varname_op initial s1 ;;
    '(value, space_after_value, continuation) <- parse_value s2 ;;
    Ok (mk_parts leading_comment varname_op space_before_value value space_after_value continuation).
