(* Model of /repo/v23/getopt/getopt.go: Options.Parse, parseLongOption,
   handleLongOption, parseShortOptions, FlagGroup.parse, FlagGroup.parseOpt.
   One definition per Go function, same case structure.  No proofs here.

   What is abstracted:
   - the Go code writes through pointers to bool, string, []string and FlagGroup;
     the model keeps one `value` per table entry, in table order (`settings`).
     Two entries sharing one pointer are not modelled (the translator gen/c08.go
     rejects a table in which two entries have the same target expression).
   - error *texts* are not modelled, only the error kind and the table index of
     the option concerned (the texts spell the option the way it was typed, so
     they differ between equivalent spellings by design).
   - args[0] (the program name) only occurs in the error text. *)
From PV Require Import Lib.Bytes Lib.Utf8.
Open Scope N_scope.

(* ---------- the option table ---------- *)

Inductive kind := KBool | KStr | KList | KGroup.

Record gflag := mk_gflag {
  gf_name : str;       (* "extra" *)
  gf_all : bool;       (* affected by "all" / "none" (AddFlagVar) or not (AddFlagVarNoAll) *)
  gf_def : bool;       (* default value *)
  gf_target : str      (* the Go expression the flag is stored in, e.g. "p.WarnExtra"; documentation and harness only *)
}.

Record odecl := mk_odecl {
  o_short : N;         (* rune *)
  o_long : str;
  o_kind : kind;
  o_def : bool;        (* default of a KBool *)
  o_defs : str;        (* default of a KStr *)
  o_flags : list gflag;(* flags of a KGroup, in declaration order *)
  o_target : str       (* Go expression the value is stored in; documentation and harness only *)
}.

Definition table := list odecl.

Inductive value :=
| VBool (b : bool)
| VStr (s : str)
| VList (l : list str)
| VGroup (bs : list bool).   (* one per flag, in declaration order *)

Definition settings := list value.

Definition init_value (o : odecl) : value :=
  match o_kind o with
  | KBool => VBool (o_def o)
  | KStr => VStr (o_defs o)
  | KList => VList []
  | KGroup => VGroup (map gf_def (o_flags o))
  end.

(* the state after NewOptions + Add*Var: every variable holds its default *)
Definition init (t : table) : settings := map init_value t.

Fixpoint set_nth {A : Type} (i : nat) (v : A) (l : list A) : list A :=
  match l with
  | [] => []
  | x :: l' => match i with O => v :: l' | S j => x :: set_nth j v l' end
  end.

(* ---------- results ---------- *)

Inductive error :=
| EUnknownLong                      (* "unknown option: --x" *)
| EAmbiguous (i j : nat)            (* "ambiguous option: --x could mean --a or --b" *)
| EInvalidArg (i : nat)             (* "invalid argument for option --x" *)
| ERequiresArg (i : nat)            (* "option requires an argument: ..." *)
| EUnknownShort (r : N)             (* "unknown option: -x" *)
| EUnknownFlag (i : nat) (flag : str). (* "unknown option: -Wfoo" *)

(* result of handling one argument: new settings and whether args[i+1] was consumed *)
Inductive step :=
| SOk (st : settings) (skip : bool)
| SErr (st : settings) (e : error)
| SPanic          (* a Go panic site was reached: slice out of range, "unknown option type" *)
| SOutOfFuel.

Inductive result :=
| ROk (st : settings) (rem : list str)
| RErr (st : settings) (rem : list str) (e : error)
| RPanic
| ROutOfFuel.

(* ---------- string constants ---------- *)

Definition s_dashdash : str := [45; 45].
Definition s_none : str := [110; 111; 110; 101].
Definition s_all : str := [97; 108; 108].
Definition s_no_ : str := [110; 111; 45].
Definition true_words : list str :=
  [ [116; 114; 117; 101]; [111; 110]; [101; 110; 97; 98; 108; 101; 100]; [49]; [121; 101; 115] ].
  (* "true" "on" "enabled" "1" "yes" *)
Definition false_words : list str :=
  [ [102; 97; 108; 115; 101]; [111; 102; 102]; [100; 105; 115; 97; 98; 108; 101; 100]; [48]; [110; 111] ].
  (* "false" "off" "disabled" "0" "no" *)

Definition str_mem (s : str) (l : list str) : bool := existsb (str_eqb s) l.

(* ---------- strings.Split(s, sep) for a single-byte separator; never [] ---------- *)
Fixpoint split_on (c : N) (s : str) : list str :=
  match s with
  | [] => [[]]
  | x :: s' =>
    if x =? c then [] :: split_on c s'
    else match split_on c s' with
         | h :: tl => (x :: h) :: tl
         | [] => [[x]]
         end
  end.

(* strings.SplitN(s, "=", 2): the part before the first '=' and, if there is one, the part after it *)
Fixpoint split_eq (s : str) : str * option str :=
  match s with
  | [] => ([], None)
  | x :: s' =>
    if x =? 61 then ([], Some s')
    else let (a, b) := split_eq s' in (x :: a, b)
  end.

(* ---------- FlagGroup.parseOpt / FlagGroup.parse ---------- *)

(* the `for _, opt := range fg.flags` loop of parseOpt: the first flag whose name
   or "no-"+name equals argOpt *)
Fixpoint find_flag (fl : list gflag) (bs : list bool) (a : str) : option (list bool) :=
  match fl, bs with
  | f :: fl', b :: bs' =>
    if str_eqb a (gf_name f) then Some (true :: bs')
    else if str_eqb a (s_no_ ++ gf_name f) then Some (false :: bs')
    else option_map (cons b) (find_flag fl' bs' a)
  | _, _ => None
  end.

Fixpoint set_all (fl : list gflag) (bs : list bool) (v : bool) : list bool :=
  match fl, bs with
  | f :: fl', b :: bs' => (if gf_all f then v else b) :: set_all fl' bs' v
  | _, _ => bs
  end.

(* None = "unknown option" *)
Definition parse_opt (fl : list gflag) (bs : list bool) (a : str) : option (list bool) :=
  if str_eqb a s_none || str_eqb a s_all then Some (set_all fl bs (str_eqb a s_all))
  else find_flag fl bs a.

(* the loop over strings.Split(arg, ","): the flags set so far are kept when a later one is unknown *)
Fixpoint group_parse (fl : list gflag) (bs : list bool) (parts : list str) : list bool * option str :=
  match parts with
  | [] => (bs, None)
  | a :: ps => match parse_opt fl bs a with
               | Some bs' => group_parse fl bs' ps
               | None => (bs, Some a)
               end
  end.

Definition group_step (i : nat) (o : odecl) (st : settings) (bs : list bool) (arg : str) (skip : bool) : step :=
  let (bs', bad) := group_parse (o_flags o) bs (split_on 44 arg) in
  let st' := set_nth i (VGroup bs') st in
  match bad with
  | None => SOk st' skip
  | Some f => SErr st' (EUnknownFlag i f)
  end.

(* ---------- handleLongOption ---------- *)

Definition bool_word (s : str) : option bool :=
  if str_mem s true_words then Some true
  else if str_mem s false_words then Some false
  else None.

Definition handle_long_option (i : nat) (o : odecl) (st : settings) (argval next : option str) : step :=
  match o_kind o with
  | KBool =>
    match argval with
    | None => SOk (set_nth i (VBool true) st) false
    | Some v => match bool_word v with
                | Some b => SOk (set_nth i (VBool b) st) false
                | None => SErr st (EInvalidArg i)
                end
    end
  | KStr =>
    match argval, next with
    | Some v, _ => SOk (set_nth i (VStr v) st) false
    | None, Some n => SOk (set_nth i (VStr n) st) true
    | None, None => SErr st (ERequiresArg i)
    end
  | KList =>
    match nth_error st i with
    | Some (VList l) =>
      match argval, next with
      | Some v, _ => SOk (set_nth i (VList (l ++ [v])) st) false
      | None, Some n => SOk (set_nth i (VList (l ++ [n])) st) true
      | None, None => SErr st (ERequiresArg i)
      end
    | _ => SPanic
    end
  | KGroup =>
    match nth_error st i with
    | Some (VGroup bs) =>
      match argval, next with
      | Some v, _ => group_step i o st bs v false
      | None, Some n => group_step i o st bs n true
      | None, None => SErr st (ERequiresArg i)
      end
    | _ => SPanic
    end
  end.

(* ---------- parseLongOption ---------- *)

(* first loop: exact match on the long name *)
Fixpoint find_long (t : table) (i : nat) (name : str) : option (nat * odecl) :=
  match t with
  | [] => None
  | o :: t' => if str_eqb name (o_long o) then Some (i, o) else find_long t' (S i) name
  end.

(* second loop: prefix match; `acc` is prefixOpt.  inl (i, j) = ambiguous *)
Fixpoint prefix_scan (t : table) (i : nat) (name : str) (acc : option (nat * odecl))
  : (nat * nat) + option (nat * odecl) :=
  match t with
  | [] => inr acc
  | o :: t' =>
    if has_prefix name (o_long o) then
      match acc with
      | None => prefix_scan t' (S i) name (Some (i, o))
      | Some (j, _) => inl (j, i)
      end
    else prefix_scan t' (S i) name acc
  end.

Definition parse_long_option (t : table) (st : settings) (argRest : str) (next : option str) : step :=
  let (argname, argval) := split_eq argRest in
  match find_long t 0 argname with
  | Some (i, o) => handle_long_option i o st argval next
  | None =>
    match prefix_scan t 0 argname None with
    | inl (i, j) => SErr st (EAmbiguous i j)
    | inr (Some (i, o)) => handle_long_option i o st argval next
    | inr None => SErr st EUnknownLong
    end
  end.

(* ---------- parseShortOptions ---------- *)

Fixpoint find_short (t : table) (i : nat) (r : N) : option (nat * odecl) :=
  match t with
  | [] => None
  | o :: t' => if r =? o_short o then Some (i, o) else find_short t' (S i) r
  end.

(* optchars[ai+utf8.RuneLen(optchar):] -- a slice expression, it panics when the
   index exceeds the length (RuneLen(RuneError) = 3 although an invalid byte has
   width 1; RuneLen = -1 cannot arise from decoding) *)
Definition slice_from (n : option nat) (s : str) : option str :=
  match n with
  | Some k => if (k <=? length s)%nat then Some (skipn k s) else None
  | None => None
  end.

Definition nonempty (s : str) : bool := match s with [] => false | _ => true end.

(* the non-bool cases of the inner switch: argarg, then args[i+1], then an error *)
Definition short_arg_action (i : nat) (o : odecl) (st : settings) (argarg : str) (next : option str) : step :=
  match o_kind o with
  | KBool => SPanic (* not called for KBool *)
  | KStr =>
    if nonempty argarg then SOk (set_nth i (VStr argarg) st) false
    else match next with
         | Some n => SOk (set_nth i (VStr n) st) true
         | None => SErr st (ERequiresArg i)
         end
  | KList =>
    match nth_error st i with
    | Some (VList l) =>
      if nonempty argarg then SOk (set_nth i (VList (l ++ [argarg])) st) false
      else match next with
           | Some n => SOk (set_nth i (VList (l ++ [n])) st) true
           | None => SErr st (ERequiresArg i)
           end
    | _ => SPanic
    end
  | KGroup =>
    match nth_error st i with
    | Some (VGroup bs) =>
      if nonempty argarg then group_step i o st bs argarg false
      else match next with
           | Some n => group_step i o st bs n true
           | None => SErr st (ERequiresArg i)
           end
    | _ => SPanic
    end
  end.

(* `for ai, optchar := range optchars`: one unit of fuel per rune *)
Fixpoint parse_short_options (fuel : nat) (t : table) (st : settings) (optchars : str) (next : option str) : step :=
  match optchars with
  | [] => SOk st false
  | _ :: _ =>
    match fuel with
    | O => SOutOfFuel
    | S fuel' =>
      let (r, w) := decode_rune optchars in
      match find_short t 0 r with
      | None => SErr st (EUnknownShort r)
      | Some (i, o) =>
        match o_kind o with
        | KBool => parse_short_options fuel' t (set_nth i (VBool true) st) (skipn w optchars) next
        | _ => match slice_from (rune_len r) optchars with
               | None => SPanic
               | Some argarg => short_arg_action i o st argarg next
               end
        end
      end
    end
  end.

(* ---------- Parse ---------- *)

(* the `switch` in the loop body, for an argument other than "--".
   None = the default case (a plain argument). *)
Definition dispatch (t : table) (st : settings) (arg : str) (next : option str) : option step :=
  match strip_prefix s_dashdash arg with
  | Some argRest => Some (parse_long_option t st argRest next)
  | None =>
    match arg with
    | c :: ((_ :: _) as optchars) =>      (* strings.HasPrefix(arg, "-") && len(arg) > 1 *)
      if c =? 45 then Some (parse_short_options (length optchars) t st optchars next) else None
    | _ => None
    end
  end.

(* the loop `for i := 1; i < len(args) && err == nil; i++`, on args[i:] *)
Fixpoint parse_args (t : table) (st : settings) (rem : list str) (args : list str) : result :=
  match args with
  | [] => ROk st rem
  | arg :: rest =>
    if str_eqb arg s_dashdash then ROk st (rem ++ rest)
    else
      match dispatch t st arg (hd_error rest) with
      | None => parse_args t st (rem ++ [arg]) rest
      | Some (SOk st' false) => parse_args t st' rem rest
      | Some (SOk st' true) =>       (* i += skip *)
        match rest with
        | _ :: rest' => parse_args t st' rem rest'
        | [] => ROk st' rem
        end
      | Some (SErr st' e) => RErr st' rem e
      | Some SPanic => RPanic
      | Some SOutOfFuel => ROutOfFuel
      end
  end.

(* Options.Parse(args) from the current values of the variables; args[0] is the program name *)
Definition parse_from (t : table) (st : settings) (args : list str) : result :=
  match args with
  | [] => ROk st []
  | _ :: rest => parse_args t st [] rest
  end.

(* ... right after the Add*Var calls *)
Definition parse (t : table) (args : list str) : result := parse_from t (init t) args.
