(* Model of /repo/v23/pkgver/vercmp.go: newVersion, field, Compare.
   One Gallina definition per Go function, same case order as the Go switch.
   The keyword/weight table is regenerated from the Go source (Gen/VercmpTable.v). *)
From PV Require Import Lib.Bytes Gen.VercmpTable.
Open Scope Z_scope.

(* strconv.Atoi on a string of decimal digits: saturates at MaxInt64 (and returns
   an error that newVersion ignores); the empty string gives 0. *)
Definition max_int : Z := 9223372036854775807.
Definition atoi (ds : str) : Z := Z.min (dec_value ds) max_int.

Fixpoint find_kw (tbl : list (str * Z)) (s : str) : option (Z * str) :=
  match tbl with
  | [] => None
  | (k, w) :: t => match strip_prefix k s with
                   | Some r => Some (w, r)
                   | None => find_kw t s
                   end
  end.

(* One iteration of the loop in newVersion, on the already lower-cased rest.
   Result: the numbers appended to v.v, the new v.nb if assigned, the new rest. *)
Definition nv_step (s : str) : option (list Z * option Z * str) :=
  match s with
  | [] => None
  | c :: s' =>
    if is_digit c then
      let (ds, r) := span is_digit s in Some ([atoi ds], None, r)
    else if existsb (N.eqb c) sep_bytes then Some ([0], None, s')
    else match find_kw keyword_table s with
         | Some (w, r) => Some ([w], None, r)
         | None =>
           match strip_prefix nb_keyword s with
           | Some r => let (ds, r') := span is_digit r in Some ([], Some (atoi ds), r')
           | None =>
             if is_lower c then Some ([0; Z.of_N c - 97 + 1], None, s')
             else Some ([], None, s')
           end
         end
  end.

Definition stepfn := str -> option (list Z * option Z * str).

Fixpoint nv_loop (step : stepfn) (fuel : nat) (s : str) (v : list Z) (nb : Z) : option (list Z * Z) :=
  match fuel with
  | O => None (* out of fuel; excluded by new_version_total *)
  | S f =>
    match step s with
    | None => Some (v, nb)
    | Some (adds, nbo, r) =>
      nv_loop step f r (v ++ adds) (match nbo with Some n => n | None => nb end)
    end
  end.

Definition new_version (s : str) : option (list Z * Z) :=
  nv_loop nv_step (S (length s)) (lower s) [] 0.

Definition field (v : list Z) (i : nat) : Z := nth i v 0.

(* the for loop of Compare over indices i .. i+n-1, on arbitrary field functions *)
Fixpoint cmp_from (n i : nat) (f g : nat -> Z) : comparison :=
  match n with
  | O => Eq
  | S n' => match f i ?= g i with
            | Eq => cmp_from n' (S i) f g
            | c => c
            end
  end.

Definition compare_versions (a b : list Z * Z) : comparison :=
  match cmp_from (Nat.max (length (fst a)) (length (fst b))) 0 (field (fst a)) (field (fst b)) with
  | Eq => snd a ?= snd b
  | c => c
  end.

(* pkgver.Compare; None = the model ran out of fuel (never, by new_version_total) *)
Definition compare (a b : str) : option comparison :=
  match new_version a, new_version b with
  | Some va, Some vb => Some (compare_versions va vb)
  | _, _ => None
  end.

Definition sign_of (c : comparison) : Z := match c with Lt => -1 | Eq => 0 | Gt => 1 end.
Definition compare_sign (a b : str) : Z :=
  match compare a b with Some c => sign_of c | None => 99 end.
