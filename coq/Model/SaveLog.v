(* How the save path's I/O failures reach the Logger: the link between the abstract
   `w_stderr : list (errkind * path)` of Model/FsProto.v and the bytes that
   Logger.TechErrorf (Model/Logger.v tech_error) hands to the stderr SeparatorWriter.
   No proofs here.

   Go code (/repo/v23/autofix.go SaveAutofixChanges, /repo/v23/pkglint.go checkExecutable):
       G.Logger.TechErrorf(tmpName, "Cannot write: %s", err)
       G.Logger.TechErrorf(tmpName, "Cannot overwrite with autofixed content: %s", err)
       G.Logger.TechErrorf(filename.CleanPath(), "Cannot clear executable bits: %s", err)
   `detail` is the text of the Go error value (err.Error()): arbitrary bytes, not modelled.

   TechErrorf takes no option record and reads none of the Logger's flags or counters:
   Model/Logger.v `tech_error (l : logger) (location msg : str)` has no `opts` argument.

   report_one_logf / report_all_logf are NOT the code: they are the seeded variant
   `G.Logger.Logf(Error, tmpName, "", format, msg)`, kept to refute it. *)
From PV Require Import Lib.Bytes Model.Escape Model.FsProto Model.Logger.
Open Scope N_scope.

(* sprintf(format, err) for the three formats *)
Definition err_message (k : errkind) (detail : str) : str :=
  match k with
  | CannotWrite => [67; 97; 110; 110; 111; 116; 32; 119; 114; 105; 116; 101; 58; 32] (*Cannot write: *) ++ detail
  | CannotOverwrite => [67; 97; 110; 110; 111; 116; 32; 111; 118; 101; 114; 119; 114; 105; 116; 101; 32; 119; 105; 116; 104; 32; 97; 117; 116; 111; 102; 105; 120; 101; 100; 32; 99; 111; 110; 116; 101; 110; 116; 58; 32] (*Cannot overwrite with autofixed content: *) ++ detail
  | CannotClearExec => [67; 97; 110; 110; 111; 116; 32; 99; 108; 101; 97; 114; 32; 101; 120; 101; 99; 117; 116; 97; 98; 108; 101; 32; 98; 105; 116; 115; 58; 32] (*Cannot clear executable bits: *) ++ detail
  end.

(* ---------- the code: TechErrorf ---------- *)

Definition report_one (l : logger) (e : errkind * path) (detail : str) : logger :=
  Model.Logger.tech_error l (snd e) (err_message (fst e) detail).

(* the entries of w_stderr in their order; `detail e` = the error text of entry e *)
Definition report_all (l : logger) (es : list (errkind * path)) (detail : errkind * path -> str) : logger :=
  fold_left (fun l e => report_one l e (detail e)) es l.

(* ---------- the seeded variant: Logf(Error, tmpName, "", format, msg) ---------- *)

Definition report_one_logf (o : opts) (l : logger) (e : errkind * path) (detail : str) : logger :=
  Model.Logger.logf o l LError (snd e) [] (err_message (fst e) detail).

Definition report_all_logf (o : opts) (l : logger) (es : list (errkind * path)) (detail : errkind * path -> str) : logger :=
  fold_left (fun l e => report_one_logf o l e (detail e)) es l.

(* ---------- observables ---------- *)

(* every byte the SeparatorWriter has accepted and not dropped: already passed on to the
   underlying writer (sw_out) or still in its line buffer (sw_line; flushed by the next "\n") *)
Definition sw_bytes (w : swriter) : str := sw_out w ++ sw_line w.
Definition stderr_bytes (l : logger) : str := sw_bytes (l_err l).
Definition stdout_bytes (l : logger) : str := sw_bytes (l_out l).

(* the blank line the SeparatorWriter puts in front of the next non-newline byte when
   Separate() was called on it (state 2).  pkglint never calls Separate on the stderr
   writer, so on stderr this is always empty; it is kept so that the theorems hold for
   ALL logger states. *)
Definition sep_pending (w : swriter) : str := if sw_state w =? 2 then [10] else [].

(* the writer has no partial line buffered and no separator pending: what it is handed
   next starts a line of the underlying stream.  Holds for new_sw. *)
Definition at_line_start (w : swriter) : Prop := sw_line w = [] /\ sw_state w <> 2.

(* the line TechErrorf writes: escapePrintable("ERROR: " + loc + msg + "\n"),
   loc = location + ": " unless the location is empty *)
Definition tech_line (location msg : str) : str :=
  let loc := location ++ (if nonempty_list location then [58; 32] (*: *) else []) in
  escape_printable ([69; 82; 82; 79; 82; 58; 32] (*ERROR: *) ++ loc ++ msg ++ [10]).

Definition error_line (e : errkind * path) (detail : str) : str :=
  tech_line (snd e) (err_message (fst e) detail).

(* the lines of a whole list of failures, in order *)
Definition report_lines (es : list (errkind * path)) (detail : errkind * path -> str) : str :=
  flat_map (fun e => error_line e (detail e)) es.

(* ---------- example data (used by Props/C05.v) ---------- *)

Definition ex_tmp : path := [97; 46; 112; 107; 103; 108; 105; 110; 116; 46; 116; 109; 112]. (* a.pkglint.tmp *)
Definition ex_entry : errkind * path := (CannotWrite, ex_tmp).
Definition ex_detail : str := [120]. (* x *)
Definition ex_error_text : str :=
  [69; 82; 82; 79; 82; 58; 32; 97; 46; 112; 107; 103; 108; 105; 110; 116; 46; 116; 109; 112; 58; 32; 67; 97; 110; 110; 111; 116; 32; 119; 114; 105; 116; 101; 58; 32; 120; 10]. (* "ERROR: a.pkglint.tmp: Cannot write: x\n" *)

(* pkglint --autofix --only foo; one Autofix.Apply for a diagnostic "bar" (not selected by
   --only): Logger.Relevant leaves suppressDiag set *)
Definition ex_only_opts : opts := mk_opts false true false false false false [[102; 111; 111]].
Definition ex_fix_line : line := mk_line 1 [77; 107] 1 [[120; 10]].
Definition ex_fix_event : event :=
  EvFix ex_fix_line no_fix LWarn [98; 97; 114] [98; 97; 114] [] [([98; 97; 114], 1%Z)].
Definition ex_suppressed : logger := log_run ex_only_opts [ex_fix_event].
