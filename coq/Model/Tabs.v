(* Model of the width arithmetic in /repo/v23/util.go:
     tabWidth, tabWidthSlice, tabWidthAppend, alignWith, alignmentTo,
     alignmentToWidths, indent, alignmentAfter, rtrimHspace
   One definition per Go function, same case structure.  Widths are Go ints: Z.
   `x &^ 7` / `x & -8` is written x / 8 * 8 and `x & 7` is x mod 8 (Z.div floors
   and Z.modulo is non-negative, like >> and & on two's complement ints).
   A Go panic (assert, slice bounds) is the result None.  No proofs here. *)
From PV Require Import Lib.Bytes.
Open Scope Z_scope.

Definition TAB : N := 9%N.
Definition SP : N := 32%N.
Definition NL : N := 10%N.
Definition BSL : N := 92%N.
Definition HASH : N := 35%N.
Definition DOT : N := 46%N.

Definition len (s : str) : Z := Z.of_nat (length s).
Definition is_nil {A : Type} (s : list A) : bool := match s with [] => true | _ => false end.

(* blanks = what the property calls "spaces and tabs" *)
Definition blankb (s : str) : bool := forallb is_hspace s.
Definition strip_blanks (s : str) : str := filter (fun c => negb (is_hspace c)) s.

Definition tabs (n : Z) : str := repeat TAB (Z.to_nat n).
Definition spaces (n : Z) : str := repeat SP (Z.to_nat n).

(* ---- UTF-8: `for _, r := range s` steps over runes ----
   rune_size c rest = number of bytes of the rune starting with byte c followed
   by rest, as utf8.DecodeRuneInString decides it: 1 for ASCII and for every
   invalid or truncated sequence (RuneError, width 1). *)
Definition in_rng (lo hi x : N) : bool := ((lo <=? x) && (x <=? hi))%N.

(* size and accepted range of the second byte, by first byte (utf8.first / acceptRanges) *)
Definition lead_info (c : N) : option (nat * N * N) :=
  if (c <? 194)%N then None                         (* ASCII, continuation bytes, C0 C1 *)
  else if (c <=? 223)%N then Some (2%nat, 128, 191)%N
  else if (c =? 224)%N then Some (3%nat, 160, 191)%N
  else if (c <=? 236)%N then Some (3%nat, 128, 191)%N
  else if (c =? 237)%N then Some (3%nat, 128, 159)%N
  else if (c <=? 239)%N then Some (3%nat, 128, 191)%N
  else if (c =? 240)%N then Some (4%nat, 144, 191)%N
  else if (c <=? 243)%N then Some (4%nat, 128, 191)%N
  else if (c =? 244)%N then Some (4%nat, 128, 143)%N
  else None.

Definition rune_size (c : N) (rest : str) : nat :=
  match lead_info c with
  | None => 1
  | Some (sz, lo, hi) =>
    match rest with
    | b1 :: r1 =>
      if in_rng lo hi b1 then
        match sz with
        | 2%nat => 2
        | _ =>
          match r1 with
          | b2 :: r2 =>
            if in_rng 128 191 b2 then
              match sz with
              | 3%nat => 3
              | _ => match r2 with
                     | b3 :: _ => if in_rng 128 191 b3 then 4 else 1
                     | [] => 1
                     end
              end
            else 1
          | [] => 1
          end
        end
      else 1
    | [] => 1
    end
  end%nat.

(* tabWidthAppend without the assertion.  `skip` = bytes of the current rune
   still to be stepped over.
     for _, r := range s { if r == '\t' { width = width&-8 + 8 } else { width++ } } *)
Fixpoint twa (width : Z) (skip : nat) (s : str) : Z :=
  match s with
  | [] => width
  | c :: s' =>
    match skip with
    | S k => twa width k s'
    | O => if (c =? TAB)%N then twa (width / 8 * 8 + 8) 0 s'
           else twa (width + 1) (pred (rune_size c s')) s'
    end
  end.

(* tabWidthAppend with `assert(r != '\n')`: None = panic *)
Fixpoint tabWidthAppend_skip (width : Z) (skip : nat) (s : str) : option Z :=
  match s with
  | [] => Some width
  | c :: s' =>
    match skip with
    | S k => tabWidthAppend_skip width k s'
    | O => if (c =? NL)%N then None
           else if (c =? TAB)%N then tabWidthAppend_skip (width / 8 * 8 + 8) 0 s'
           else tabWidthAppend_skip (width + 1) (pred (rune_size c s')) s'
    end
  end.
Definition tabWidthAppend (width : Z) (s : str) : option Z := tabWidthAppend_skip width 0 s.
Definition tabWidth (s : str) : option Z := tabWidthAppend 0 s.

(* the total versions used where the callers have already excluded '\n' *)
Definition twa0 (width : Z) (s : str) : Z := twa width 0 s.
Definition tab_width (s : str) : Z := twa0 0 s.
Definition has_nl (s : str) : bool := existsb (fun c => (c =? NL)%N) s.

(* s[a:b] with Go's bounds check *)
Definition slice (s : str) (a b : Z) : option str :=
  if (0 <=? a) && (a <=? b) && (b <=? len s)
  then Some (firstn (Z.to_nat (b - a)) (skipn (Z.to_nat a) s))
  else None.

(* func indent(width int) string *)
Definition tabsAndSpaces : str := tabs 9 ++ spaces 7.
Definition indent (width : Z) : option str :=
  let middle := len tabsAndSpaces - 7 in
  if width <=? 8 * middle + 7 then
    slice tabsAndSpaces (middle - width / 8) (middle + width mod 8)
  else
    (* strings.Repeat("\t", width>>3) + "       "[:width&7] *)
    Some (tabs (width / 8) ++ spaces (width mod 8)).

(* func alignmentToWidths(strWidth, otherWidth int) string *)
Definition alignmentToWidths (strWidth otherWidth : Z) : option str :=
  if otherWidth <=? strWidth then Some []
  else
    let strWidth' := if negb (strWidth / 8 * 8 =? otherWidth / 8 * 8) then strWidth / 8 * 8 else strWidth in
    indent (otherWidth - strWidth').

(* func alignmentTo(str, other string) string *)
Definition alignmentTo (s other : str) : option str :=
  match tabWidth s, tabWidth other with
  | Some sw, Some ow => alignmentToWidths sw ow
  | _, _ => None
  end.

(* func alignWith(str, other string) string *)
Definition alignWith (s other : str) : option str :=
  match alignmentTo s other with
  | Some a => Some (s ++ a)
  | None => None
  end.

(* func alignmentAfter(prefix string, width int) string *)
Definition alignmentAfter (prefix : str) (width : Z) : option str :=
  match tabWidth prefix with
  | None => None
  | Some pw =>
    if width <? pw then None                                      (* assert(width >= pw) *)
    else indent (width - (if negb (pw / 8 * 8 =? width / 8 * 8) then pw / 8 * 8 else pw))
  end.

(* func rtrimHspace(str string) string *)
Fixpoint rtrimHspace (s : str) : str :=
  match s with
  | [] => []
  | c :: s' =>
    match rtrimHspace s' with
    | [] => if is_hspace c then [] else [c]
    | t => c :: t
    end
  end.
