(* Model of /repo/v23/shtokenizer.go (ShTokenizer: ShAtom for the 13 quoting
   states, shAtomInternal, shExpr, shOperator, ShAtoms, ShToken) on top of the
   primitives of /repo/v23/textproc/lexer.go that it uses.

   One Gallina definition per Go function, same case order.  No proofs here.

   * The lexer is its rest string; `Mark()` is the rest at that moment,
     `Reset(mark)` puts it back, `Since(mark)` slices `mark[0 : len(mark)-len(rest)]`
     (a Go slice expression: panics when len(rest) > len(mark)).
   * `Skip(n)` is `rest[n:]`: panics when n > len(rest).
   * Every panic site is the explicit result `Panic`; every loop runs on explicit
     fuel with the distinct result `OutOfFuel`.
   * A `Skip…`/`Next…` primitive or a `SkipRegexp(re)` is an *op*
     `str -> option str`: `Some r` = it matched and the rest is now `r`,
     `None` = no match, lexer untouched.
   * The tokenizer state is (inWord, rest).
   * `p.parser.Expr()` (MkLexer.Expr, part C10mk) is NOT modelled here: it is the
     Section variable `expr`, `expr s = Some (t, r)` meaning "returned non-nil,
     consumed the text t, rest is now r", `None` meaning "returned nil". *)
From PV Require Import Lib.Bytes.
Open Scope N_scope.

(* ---------- results ---------- *)

Inductive res (A : Type) : Type :=
| Ok (a : A)
| Panic        (* a Go run-time panic or a failed assert *)
| OutOfFuel.   (* the loop bound of the model was exhausted *)
Arguments Ok {A} a.
Arguments Panic {A}.
Arguments OutOfFuel {A}.

Definition bind {A B : Type} (r : res A) (f : A -> res B) : res B :=
  match r with
  | Ok a => f a
  | Panic => Panic
  | OutOfFuel => OutOfFuel
  end.

(* ---------- textproc.Lexer primitives ---------- *)

(* Lexer.Since(mark): string(mark)[0 : len(mark)-len(l.rest)] *)
Definition since (mark rest : str) : res str :=
  if (length rest <=? length mark)%nat
  then Ok (firstn (length mark - length rest) mark)
  else Panic.

(* Lexer.Skip(n): l.rest = l.rest[n:] *)
Definition skip (n : nat) (s : str) : res str :=
  if (n <=? length s)%nat then Ok (skipn n s) else Panic.

Definition op := str -> option str.

(* Lexer.SkipByte(b) *)
Definition op_byte (b : N) : op := fun s =>
  match s with
  | c :: r => if c =? b then Some r else None
  | [] => None
  end.

(* Lexer.SkipString(prefix) *)
Definition op_string (p : str) : op := fun s => strip_prefix p s.

(* Lexer.NextBytesFunc(fn) != "" / NextHspace() != "" / SkipHspace() / SkipBytesFunc(fn) *)
Definition op_span (f : N -> bool) : op := fun s =>
  match span f s with
  | ([], _) => None
  | (_ :: _, r) => Some r
  end.

Definition op_hspace : op := op_span is_hspace.

Definition in_set (l : list N) (c : N) : bool := existsb (N.eqb c) l.

(* ---------- the regular expressions of shtokenizer.go, as explicit functions
   (RE2 semantics: leftmost-first; a negated class matches one rune, i.e. one
   UTF-8 sequence or one invalid byte, newline included) ---------- *)

(* `^[!#%*+,\-./0-9:=?@A-Z\[\]^_a-z{}~]+` *)
Definition is_text_byte (c : N) : bool :=
  (c =? 33) || (c =? 35) || (c =? 37) || ((42 <=? c) && (c <=? 58)) || (c =? 61)
  || ((63 <=? c) && (c <=? 91)) || ((93 <=? c) && (c <=? 95))
  || ((97 <=? c) && (c <=? 123)) || (c =? 125) || (c =? 126).
Definition re_text : op := op_span is_text_byte.

(* `^[\t &'();<>|]+` *)
Definition is_dq_byte (c : N) : bool := in_set [9; 32; 38; 39; 40; 41; 59; 60; 62; 124] c.
Definition re_dq : op := op_span is_dq_byte.

(* `^[\t DQUOTE &();<>\\|]+`  (DQUOTE = the double quote character, byte 34) *)
Definition is_sq_byte (c : N) : bool := in_set [9; 32; 34; 38; 40; 41; 59; 60; 62; 92; 124] c.
Definition re_sq : op := op_span is_sq_byte.

(* width of the rune that utf8.DecodeRuneInString finds at the start of a
   non-empty string: 1 for ASCII and for every invalid or truncated sequence *)
Definition is_cont (c : N) : bool := (128 <=? c) && (c <=? 191).
Definition utf8_width (s : str) : nat :=
  match s with
  | [] => 0%nat
  | c0 :: t =>
    if c0 <? 194 then 1%nat
    else if c0 <=? 223 then
      match t with
      | c1 :: _ => if is_cont c1 then 2%nat else 1%nat
      | _ => 1%nat
      end
    else if c0 <=? 239 then
      let lo := if c0 =? 224 then 160 else 128 in
      let hi := if c0 =? 237 then 159 else 191 in
      match t with
      | c1 :: c2 :: _ => if (lo <=? c1) && (c1 <=? hi) && is_cont c2 then 3%nat else 1%nat
      | _ => 1%nat
      end
    else if c0 <=? 244 then
      let lo := if c0 =? 240 then 144 else 128 in
      let hi := if c0 =? 244 then 143 else 191 in
      match t with
      | c1 :: c2 :: c3 :: _ =>
        if (lo <=? c1) && (c1 <=? hi) && is_cont c2 && is_cont c3 then 4%nat else 1%nat
      | _ => 1%nat
      end
    else 1%nat
  end.

(* `^\\[^$]` : a backslash and one rune other than '$' *)
Definition re_bs_any : op := fun s =>
  match s with
  | c0 :: ((c :: _) as t) =>
    if c0 =? 92 then (if c =? 36 then None else Some (skipn (utf8_width t) t)) else None
  | _ => None
  end.

(* matches(rest, `^\$\$[^!#( *\-0-9?@A-Z_a-z{]`)   (no blank in the original class) *)
Definition is_shvar_start (c : N) : bool :=
  in_set [33; 35; 40; 42; 45; 63; 64; 95; 123] c || is_digit c || is_upper c || is_lower c.
Definition re_dollars_other (s : str) : bool :=
  match s with
  | a :: b :: c :: _ => (a =? 36) && (b =? 36) && negb (is_shvar_start c)
  | _ => false
  end.

(* `^#[^`]*`  and  `^#[^)]*` *)
Definition re_comment_until (stop : N) : op := fun s =>
  match s with
  | c :: t => if c =? 35 then Some (snd (span (fun c => negb (c =? stop)) t)) else None
  | [] => None
  end.

(* `^(?:[!#*\-?@]|\$\$|[A-Za-z_]\w*|\d+)` *)
Definition is_word_byte (c : N) : bool := is_alnum c || (c =? 95).
Definition re_shvarname : op := fun s =>
  match s with
  | [] => None
  | c :: t =>
    if in_set [33; 35; 42; 45; 63; 64] c then Some t
    else if c =? 36 then (match t with c1 :: t1 => if c1 =? 36 then Some t1 else None | [] => None end)
    else if is_alpha c || (c =? 95) then Some (snd (span is_word_byte t))
    else if is_digit c then Some (snd (span is_digit t))
    else None
  end.

(* `^(?:##?|%%?|:?[+\-=?])[^$\\{}]*` *)
Definition is_shmod_byte (c : N) : bool := negb (in_set [36; 92; 123; 125] c).
Definition is_shmod_op (c : N) : bool := in_set [43; 45; 61; 63] c.
Definition re_shmodifier : op := fun s =>
  let tail (t : str) := Some (snd (span is_shmod_byte t)) in
  match s with
  | [] => None
  | c :: t =>
    if c =? 35 then tail (match op_byte 35 t with Some t' => t' | None => t end)       (* ##? *)
    else if c =? 37 then tail (match op_byte 37 t with Some t' => t' | None => t end)  (* %%? *)
    else if c =? 58 then                                                               (* :[+\-=?] *)
      match t with
      | c1 :: t1 => if is_shmod_op c1 then tail t1 else None
      | [] => None
      end
    else if is_shmod_op c then tail t
    else None
  end.

(* `^\d*(?:<<-|<<|<&|<>|>>|>&|>\||<|>)` *)
Definition redirect_ops : list str :=
  [ [60; 60; 45]; [60; 60]; [60; 38]; [60; 62]; [62; 62]; [62; 38]; [62; 124]; [60]; [62] ].
Fixpoint first_prefix (ps : list str) (s : str) : option str :=
  match ps with
  | [] => None
  | p :: tl => match strip_prefix p s with
               | Some r => Some r
               | None => first_prefix tl s
               end
  end.
Definition re_redirect : op := fun s => first_prefix redirect_ops (snd (span is_digit s)).

(* ---------- atoms ---------- *)

Inductive atype := ShtSpace | ShtExpr | ShtShExpr | ShtText | ShtOperator | ShtComment | ShtSubshell.

Inductive quoting :=
| QPlain | QDquot | QSquot | QBackt | QSubsh | QDquotBackt | QBacktDquot | QBacktSquot
| QSubshDquot | QSubshSquot | QSubshBackt | QDquotBacktDquot | QDquotBacktSquot.

Record atom := mk_atom { a_type : atype; a_text : str; a_quot : quoting }.

Definition is_word (t : atype) : bool :=
  match t with ShtExpr | ShtShExpr | ShtText => true | _ => false end.
Definition is_space_type (t : atype) : bool :=
  match t with ShtSpace => true | _ => false end.
Definition quoting_eqb (a b : quoting) : bool :=
  match a, b with
  | QPlain, QPlain | QDquot, QDquot | QSquot, QSquot | QBackt, QBackt | QSubsh, QSubsh
  | QDquotBackt, QDquotBackt | QBacktDquot, QBacktDquot | QBacktSquot, QBacktSquot
  | QSubshDquot, QSubshDquot | QSubshSquot, QSubshSquot | QSubshBackt, QSubshBackt
  | QDquotBacktDquot, QDquotBacktDquot | QDquotBacktSquot, QDquotBacktSquot => true
  | _, _ => false
  end.

(* tokenizer state: p.inWord, p.parser.lexer.rest *)
Definition state := (bool * str)%type.

(* `switch { case lexer.X(): return &ShAtom{T, lexer.Since(mark), Q, nil} ... }`:
   the first op that matches decides; text = Since(mark) *)
Definition alt := (op * atype * quoting)%type.
Fixpoint first_alt (alts : list alt) (mark : str) : res (option (atom * str)) :=
  match alts with
  | [] => Ok None
  | (o, t, q) :: tl =>
    match o mark with
    | Some r => bind (since mark r) (fun text => Ok (Some (mk_atom t text q, r)))
    | None => first_alt tl mark
    end
  end.

Definition dollars : str := [36; 36].                 (* "$$" *)
Definition dollars_paren : str := [36; 36; 40].       (* "$$(" *)
Definition bs_dollars : str := [92; 36; 36].          (* "\\$$" *)
Definition ulimit_cmd : str :=                        (* "${_ULIMIT_CMD}" *)
  [36; 123; 95; 85; 76; 73; 77; 73; 84; 95; 67; 77; 68; 125].

(* func (p *ShTokenizer) shOperator(q ShQuoting) *ShAtom *)
Definition sh_operator (q : quoting) (s : str) : res (option (atom * str)) :=
  first_alt
    [ (op_string [124; 124], ShtOperator, q);            (* "||" *)
      (op_string [38; 38], ShtOperator, q);              (* "&&" *)
      (op_string [59; 59], ShtOperator, q);              (* ";;" *)
      (op_span (fun b => b =? 10), ShtOperator, q);      (* SkipBytesFunc(b == '\n') *)
      (op_byte 59, ShtOperator, q);                      (* ; *)
      (op_byte 40, ShtOperator, q);                      (* ( *)
      (op_byte 41, ShtOperator, q);                      (* ) *)
      (op_byte 124, ShtOperator, q);                     (* | *)
      (op_byte 38, ShtOperator, q);                      (* & *)
      (re_redirect, ShtOperator, q) ] s.

(* func (p *ShTokenizer) shExpr(q ShQuoting) *ShAtom
   None: returned nil; the lexer is where it was (nothing consumed yet, or Reset(beforeDollar)) *)
Definition sh_expr (q : quoting) (s : str) : res (option (atom * str)) :=
  let before_dollar := s in
  match op_string dollars s with
  | None => Ok None
  | Some s1 =>
    if (match s1 with c :: _ => is_digit c | [] => false end) then   (* lexer.TestByteSet(textproc.Digit) *)
      bind (skip 1 s1) (fun s2 =>
      bind (since before_dollar s2) (fun text =>
      (* text[2:] *)
      if (2 <=? length text)%nat then Ok (Some (mk_atom ShtShExpr text q, s2)) else Panic))
    else
      let '(brace, s2) := match op_byte 123 s1 with Some r => (true, r) | None => (false, s1) end in
      match re_shvarname s2 with
      | None => Ok None                                       (* Reset(beforeDollar) *)
      | Some s3 =>
        if brace : bool then
          let s4 := match re_shmodifier s3 with Some r => r | None => s3 end in
          match op_byte 125 s4 with
          | None => Ok None                                   (* Reset(beforeDollar) *)
          | Some s5 => bind (since before_dollar s5) (fun text => Ok (Some (mk_atom ShtShExpr text q, s5)))
          end
        else bind (since before_dollar s3) (fun text => Ok (Some (mk_atom ShtShExpr text q, s3)))
      end
  end.

(* one iteration of the `for` loop in shAtomInternal.
   Some r: the switch consumed something, go on with rest r.  None: break loop. *)
Definition internal_step (dquot squot : bool) (s : str) : res (option str) :=
  match re_text s with Some r => Ok (Some r) | None =>
  match (if dquot then re_dq s else None) with Some r => Ok (Some r) | None =>
  match (if squot then op_byte 96 s else None) with Some r => Ok (Some r) | None =>
  match (if squot then re_sq s else None) with Some r => Ok (Some r) | None =>
  match (if squot then op_string dollars s else None) with Some r => Ok (Some r) | None =>
  if squot then Ok None else
  match op_string bs_dollars s with Some r => Ok (Some r) | None =>
  match re_bs_any s with Some r => Ok (Some r) | None =>
  if re_dollars_other s then
    (* lexer.NextString("$$") *)
    Ok (Some (match strip_prefix dollars s with Some r => r | None => s end))
  else if str_eqb s dollars then bind (skip 2 s) (fun r => Ok (Some r))
  else if str_eqb s [36] then bind (skip 1 s) (fun r => Ok (Some r))
  else Ok None
  end end end end end end end.

Fixpoint internal_loop (fuel : nat) (dquot squot : bool) (s : str) : res str :=
  match fuel with
  | O => OutOfFuel
  | S f =>
    bind (internal_step dquot squot s) (fun o =>
    match o with
    | Some r => internal_loop f dquot squot r
    | None => Ok s
    end)
  end.

(* func (p *ShTokenizer) shAtomInternal(q ShQuoting, dquot, squot bool) *ShAtom *)
Definition sh_atom_internal (q : quoting) (dquot squot : bool) (st : state) : res (option atom * state) :=
  let '(iw, s) := st in
  bind (sh_expr q s) (fun oe =>
  match oe with
  | Some (a, r) => Ok (Some a, (true, r))
  | None =>
    let mark := s in
    bind (internal_loop (S (length s)) dquot squot s) (fun r =>
    bind (since mark r) (fun token =>
    match token with
    | _ :: _ => Ok (Some (mk_atom ShtText token q), (true, r))
    | [] => Ok (None, (iw, r))
    end))
  end).

(* the common shape `switch {cases}; return p.shAtomInternal(q, dquot, squot)` *)
Definition alts_then_internal (alts : list alt) (q : quoting) (dquot squot : bool) (st : state)
  : res (option atom * state) :=
  let '(iw, s) := st in
  bind (first_alt alts s) (fun o =>
  match o with
  | Some (a, r) => Ok (Some a, (iw, r))
  | None => sh_atom_internal q dquot squot st
  end).

Definition sh_atom_plain (st : state) : res (option atom * state) :=
  let '(iw, s) := st in
  let q := QPlain in
  bind (sh_operator q s) (fun o =>
  match o with
  | Some (a, r) => Ok (Some a, (iw, r))
  | None =>
    let in_word := iw in
    (* p.inWord = false *)
    bind (first_alt [ (op_hspace, ShtSpace, q);
                      (op_byte 34, ShtText, QDquot);
                      (op_byte 39, ShtText, QSquot);
                      (op_byte 96, ShtText, QBackt) ] s) (fun o1 =>
    match o1 with
    | Some (a, r) => Ok (Some a, (false, r))
    | None =>
      (* case lexer.PeekByte() == '#' && !inWord *)
      if (match s with c :: _ => c =? 35 | [] => false end) && negb in_word then
        (* rest := lexer.Rest(); lexer.Skip(len(rest)) *)
        bind (skip (length s) s) (fun r => Ok (Some (mk_atom ShtComment s q), (false, r)))
      else alts_then_internal [ (op_string dollars_paren, ShtSubshell, QSubsh) ] q false false (false, s)
    end)
  end).

Definition sh_atom_dquot : state -> res (option atom * state) :=
  alts_then_internal [ (op_byte 34, ShtText, QPlain); (op_byte 96, ShtText, QDquotBackt) ] QDquot true false.

Definition sh_atom_squot : state -> res (option atom * state) :=
  alts_then_internal [ (op_byte 39, ShtText, QPlain) ] QSquot false true.

Definition sh_atom_backt (st : state) : res (option atom * state) :=
  let '(iw, s) := st in
  let q := QBackt in
  bind (sh_operator q s) (fun o =>
  match o with
  | Some (a, r) => Ok (Some a, (iw, r))
  | None =>
    alts_then_internal [ (op_byte 34, ShtText, QBacktDquot);
                         (op_byte 96, ShtText, QPlain);
                         (op_byte 39, ShtText, QBacktSquot);
                         (op_hspace, ShtSpace, q);
                         (re_comment_until 96, ShtComment, q) ] q false false st
  end).

Definition sh_atom_subsh (st : state) : res (option atom * state) :=
  let '(iw, s) := st in
  let q := QSubsh in
  bind (first_alt [ (op_hspace, ShtSpace, q);
                    (op_byte 34, ShtText, QSubshDquot);
                    (op_byte 39, ShtText, QSubshSquot);
                    (op_byte 96, ShtText, QSubshBackt);
                    (re_comment_until 41, ShtComment, q);
                    (op_byte 41, ShtOperator, QPlain) ] s) (fun o =>
  match o with
  | Some (a, r) => Ok (Some a, (iw, r))
  | None =>
    bind (sh_operator q s) (fun o1 =>
    match o1 with
    | Some (a, r) => Ok (Some a, (iw, r))
    | None => sh_atom_internal q false false st
    end)
  end).

Definition sh_atom_dquot_backt (st : state) : res (option atom * state) :=
  let '(iw, s) := st in
  let q := QDquotBackt in
  bind (sh_operator q s) (fun o =>
  match o with
  | Some (a, r) => Ok (Some a, (iw, r))
  | None =>
    alts_then_internal [ (op_byte 96, ShtText, QDquot);
                         (op_byte 34, ShtText, QDquotBacktDquot);
                         (op_byte 39, ShtText, QDquotBacktSquot);
                         (re_comment_until 96, ShtComment, q);
                         (op_hspace, ShtSpace, q) ] q false false st
  end).

Definition sh_atom_backt_dquot : state -> res (option atom * state) :=
  alts_then_internal [ (op_byte 34, ShtText, QBackt) ] QBacktDquot true false.
Definition sh_atom_backt_squot : state -> res (option atom * state) :=
  alts_then_internal [ (op_byte 39, ShtText, QBackt) ] QBacktSquot false true.
Definition sh_atom_subsh_dquot : state -> res (option atom * state) :=
  alts_then_internal [ (op_byte 34, ShtText, QSubsh) ] QSubshDquot true false.
Definition sh_atom_subsh_squot : state -> res (option atom * state) :=
  alts_then_internal [ (op_byte 39, ShtText, QSubsh) ] QSubshSquot false true.
Definition sh_atom_subsh_backt : state -> res (option atom * state) :=
  alts_then_internal [ (op_byte 96, ShtOperator, QSubsh); (op_hspace, ShtSpace, QSubshBackt) ]
                     QSubshBackt false false.
Definition sh_atom_dquot_backt_dquot : state -> res (option atom * state) :=
  alts_then_internal [ (op_byte 34, ShtText, QDquotBackt) ] QDquotBacktDquot true false.
Definition sh_atom_dquot_backt_squot : state -> res (option atom * state) :=
  alts_then_internal [ (op_byte 39, ShtText, QDquotBackt) ] QDquotBacktSquot false true.

Definition sh_atom_dispatch (q : quoting) : state -> res (option atom * state) :=
  match q with
  | QPlain => sh_atom_plain
  | QDquot => sh_atom_dquot
  | QSquot => sh_atom_squot
  | QBackt => sh_atom_backt
  | QSubsh => sh_atom_subsh
  | QDquotBackt => sh_atom_dquot_backt
  | QBacktDquot => sh_atom_backt_dquot
  | QBacktSquot => sh_atom_backt_squot
  | QSubshDquot => sh_atom_subsh_dquot
  | QSubshSquot => sh_atom_subsh_squot
  | QSubshBackt => sh_atom_subsh_backt
  | QDquotBacktDquot => sh_atom_dquot_backt_dquot
  | QDquotBacktSquot => sh_atom_dquot_backt_squot
  end.

Section WithExpr.

(* p.parser.Expr(): Some (text consumed, new rest) or None (nil, lexer untouched) *)
Variable expr : str -> option (str * str).

(* func (p *ShTokenizer) ShAtom(quoting ShQuoting) *ShAtom *)
Definition sh_atom (quoting : quoting) (st : state) : res (option atom * state) :=
  let '(iw, s) := st in
  match s with
  | [] => Ok (None, st)                                    (* p.parser.EOF() *)
  | _ :: _ =>
    let mark := s in
    match expr s with
    | Some (text, r) => Ok (Some (mk_atom ShtExpr text quoting), (true, r))   (* p.inWord = true; text = lexer.Since(mark) *)
    | None =>
      bind (sh_atom_dispatch quoting st) (fun '(oa, (iw', r)) =>
      match oa with
      | Some a => Ok (Some a, (iw', r))
      | None => Ok (None, (iw', mark))                      (* lexer.Reset(mark) *)
      end)
    end
  end.

(* func (p *ShTokenizer) ShAtoms() []*ShAtom, generalised to any start state q *)
Fixpoint sh_atoms_loop (fuel : nat) (q : quoting) (st : state) : res (list atom * state) :=
  match fuel with
  | O => OutOfFuel
  | S f =>
    bind (sh_atom q st) (fun '(oa, st') =>
    match oa with
    | None => Ok ([], st')
    | Some a => bind (sh_atoms_loop f (a_quot a) st') (fun '(l, st'') => Ok (a :: l, st''))
    end)
  end.

Definition sh_atoms_from (q : quoting) (st : state) : res (list atom * state) :=
  sh_atoms_loop (S (length (snd st))) q st.

Definition sh_atoms (s : str) : res (list atom * state) := sh_atoms_from QPlain (false, s).

(* ---- ShToken ---- *)

(* the local variables of ShToken that its closures peek/skip share, plus the tokenizer state *)
Record tkst := mk_tkst { t_curr : option atom; t_q : quoting; t_prevq : quoting; t_st : state }.

Definition set_curr (k : tkst) (c : option atom) : tkst := mk_tkst c (t_q k) (t_prevq k) (t_st k).
Definition reset_rest (k : tkst) (mark : str) : tkst :=
  mk_tkst (t_curr k) (t_q k) (t_prevq k) (fst (t_st k), mark).

(* peek := func() *ShAtom { if curr == nil { curr = p.ShAtom(q); if curr != nil { prevQ = q; q = curr.Quoting } }; return curr } *)
Definition peek (k : tkst) : res tkst :=
  match t_curr k with
  | Some _ => Ok k
  | None =>
    bind (sh_atom (t_q k) (t_st k)) (fun '(oa, st') =>
    match oa with
    | Some a => Ok (mk_tkst (Some a) (a_quot a) (t_q k) st')
    | None => Ok (mk_tkst None (t_q k) (t_prevq k) st')
    end)
  end.

(* for peek() != nil && peek().Type == shtSpace { skip(); initialMark = lexer.Mark() } *)
Fixpoint skip_spaces (fuel : nat) (k : tkst) (initial_mark : str) : res (tkst * str) :=
  match fuel with
  | O => OutOfFuel
  | S f =>
    bind (peek k) (fun k1 =>
    match t_curr k1 with
    | Some a =>
      if is_space_type (a_type a) then skip_spaces f (set_curr k1 None) (snd (t_st k1))
      else Ok (k1, initial_mark)
    | None => Ok (k1, initial_mark)
    end)
  end.

(* for { mark := lexer.Mark(); peek(); if curr == nil || !curr.Type.IsWord() && q == shqPlain && prevQ != shqSubsh
         { lexer.Reset(mark); break }; atoms = append(atoms, curr); skip() } *)
Fixpoint collect_atoms (fuel : nat) (k : tkst) (atoms : list atom) : res (tkst * list atom) :=
  match fuel with
  | O => OutOfFuel
  | S f =>
    let mark := snd (t_st k) in
    bind (peek k) (fun k1 =>
    match t_curr k1 with
    | None => Ok (reset_rest k1 mark, atoms)
    | Some a =>
      if negb (is_word (a_type a)) && quoting_eqb (t_q k1) QPlain && negb (quoting_eqb (t_prevq k1) QSubsh)
      then Ok (reset_rest k1 mark, atoms)
      else collect_atoms f (set_curr k1 None) (atoms ++ [a])
    end)
  end.

Record token := mk_token { tok_text : str; tok_atoms : list atom }.

(* func NewShToken(mkText string, atoms ...*ShAtom) *ShToken: two asserts *)
Definition new_sh_token (text : str) (atoms : list atom) : res token :=
  match text, atoms with
  | _ :: _, _ :: _ => Ok (mk_token text atoms)
  | _, _ => Panic
  end.

(* func (p *ShTokenizer) ShToken() *ShToken *)
Fixpoint sh_token_fuel (fuel : nat) (st : state) : res (option token * state) :=
  match fuel with
  | O => OutOfFuel
  | S f =>
    let k0 := mk_tkst None QPlain QPlain st in
    bind (skip_spaces f k0 (snd st)) (fun '(k, initial_mark) =>
    match t_curr k with
    | None => Ok (None, t_st k)
    | Some curr =>
      if str_eqb (a_text curr) ulimit_cmd then sh_token_fuel f (t_st k)
      else if negb (is_word (a_type curr)) && negb (quoting_eqb (t_q k) QSubsh) then
        bind (new_sh_token (a_text curr) [curr]) (fun t => Ok (Some t, t_st k))
      else
        bind (collect_atoms f k []) (fun '(k2, atoms) =>
        if negb (quoting_eqb (t_q k2) QPlain) then
          Ok (None, (fst (t_st k2), initial_mark))          (* lexer.Reset(initialMark) *)
        else
          bind (since initial_mark (snd (t_st k2))) (fun text =>
          bind (new_sh_token text atoms) (fun t => Ok (Some t, t_st k2))))
    end)
  end.

Definition sh_token (st : state) : res (option token * state) :=
  sh_token_fuel (length (snd st) + 2) st.

(* the driver of the correspondence (shim/verif_c10sh.go: VerifShTokens): call
   ShToken until it returns nil; records the rest after every call *)
Fixpoint sh_tokens_loop (fuel : nat) (st : state) : res (list (token * str) * state) :=
  match fuel with
  | O => OutOfFuel
  | S f =>
    bind (sh_token st) (fun '(ot, st') =>
    match ot with
    | None => Ok ([], st')
    | Some t => bind (sh_tokens_loop f st') (fun '(l, st'') => Ok ((t, snd st') :: l, st''))
    end)
  end.

Definition sh_tokens (s : str) : res (list (token * str) * state) :=
  sh_tokens_loop (S (length s)) (false, s).

(* func splitIntoShellTokens(line Autofixer, text string) (tokens []string, rest string)  (shell.go):
   p := NewShTokenizer(line, text); ShToken() until nil, collecting token.MkText; rest = p.parser.Rest() *)
Definition split_tokens (text : str) : res (list str * str) :=
  bind (sh_tokens text) (fun '(l, (_, rest)) => Ok (map (fun p => tok_text (fst p)) l, rest)).

End WithExpr.

(* The expression lexer used by the correspondence run: the harness asks the real
   MkLexer.Expr for the number of bytes it consumes at every suffix of the input
   (0 = nil) and the oracle looks the answer up.  `total` = length of the input. *)
Definition table_expr (total : nat) (tbl : list nat) (r : str) : option (str * str) :=
  let n := nth (total - length r) tbl 0%nat in
  match n with
  | O => None
  | S _ => if (n <=? length r)%nat then Some (firstn n r, skipn n r) else None
  end.
