(* Model of /repo/v23/makepat/pat.go and of mayMatchNumber in
   /repo/v23/mkcondsimplifier.go.  One definition per Go function, same case
   structure.  No proofs here.

   Conventions
   - a byte is an N (Go: byte, always < 256); a stateID is an N (Go: int; the
     conversion stateID(i) of a slice index or length is written [to_state_id]
     and is exact);
   - a Go slice is a list; every slice/array index that can be out of range in
     Go is an explicit [Panic] here (helpers return [None] for "index out of
     range", the callers turn that into [Panic]);
   - loops whose trip count is not structural run on fuel and return
     [OutOfFuel] when it runs out;
   - [compile] returns [Ok None] exactly where Go returns a non-nil error. *)
From PV Require Import Lib.Bytes Gen.NumberAutomaton.
Open Scope N_scope.

Inductive res (A : Type) : Type :=
| Ok (a : A)
| Panic
| OutOfFuel.
Arguments Ok {A} a.
Arguments Panic {A}.
Arguments OutOfFuel {A}.

(* type transition struct { min, max byte; to stateID } *)
Record transition := mkT { tmin : N; tmax : N; tto : N }.
(* type state struct { transitions []transition; end bool } *)
Record state := mkS { trans : list transition; fin : bool }.
(* type Pattern struct { states []state } *)
Definition pattern := list state.

(* ---------- slices ---------- *)

Fixpoint nlen {A} (l : list A) : N :=
  match l with [] => 0 | _ :: t => N.succ (nlen t) end.

(* l[i], None = index out of range *)
Fixpoint nth_n {A} (l : list A) (i : N) : option A :=
  match l with
  | [] => None
  | x :: t => if i =? 0 then Some x else nth_n t (N.pred i)
  end.

(* l[i] = f(l[i]), None = index out of range *)
Fixpoint upd_n {A} (l : list A) (i : N) (f : A -> A) : option (list A) :=
  match l with
  | [] => None
  | x :: t => if i =? 0 then Some (f x :: t)
              else match upd_n t (N.pred i) f with
                   | Some t' => Some (x :: t')
                   | None => None
                   end
  end.

Fixpoint nrepeat {A} (x : A) (n : nat) : list A :=
  match n with O => [] | S k => x :: nrepeat x k end.

(* make([]T, len(l)) *)
Definition zeros_like {A B} (z : B) (l : list A) : list B := map (fun _ => z) l.

(* stateID(i) for an int i >= 0 *)
Definition to_state_id (i : N) : N := i.

(* ---------- addState, addTransition ---------- *)

(* func (p *Pattern) addState(end bool) stateID *)
Definition add_state (p : pattern) (e : bool) : pattern * N :=
  let p' := p ++ [mkS [] e] in
  (p', to_state_id (nlen p' - 1)).

(* func (p *Pattern) addTransition(from stateID, min, max byte, to stateID);
   None = p.states[from] out of range *)
Definition add_transition (p : pattern) (from : N) (t : transition) : option pattern :=
  upd_n p from (fun st => mkS (trans st ++ [t]) (fin st)).

(* ---------- compileCharClass, addTransitions ---------- *)

(* lex.SkipByte(b) *)
Definition skip_byte (b : N) (rest : str) : bool * str :=
  match rest with
  | c :: r => if c =? b then (true, r) else (false, rest)
  | [] => (false, rest)
  end.

(* var chars [256]bool *)
Definition chars_empty : list bool := nrepeat false 256.

(* for i := lo; i <= hi; i++ { chars[i] = true }  (indices are bytes: never out of range) *)
Fixpoint set_range_from (chars : list bool) (i lo hi : N) : list bool :=
  match chars with
  | [] => []
  | b :: t => (if (lo <=? i) && (i <=? hi) then true else b) :: set_range_from t (N.succ i) lo hi
  end.
Definition set_range (chars : list bool) (lo hi : N) : list bool := set_range_from chars 0 lo hi.

(* the for-loop of compileCharClass, after the optional '^':
   None = "unfinished character class" / "unfinished character range";
   Some (chars, rest after the closing bracket) *)
Fixpoint class_loop (rest : str) (chars : list bool) : option (list bool * str) :=
  match rest with
  | [] => None                                   (* lex.EOF(): unfinished character class *)
  | ch :: r1 =>
    if ch =? 93 (* ']' *) then Some (chars, r1)
    else match r1 with
         | d :: r2 =>
           if d =? 45 (* lex.SkipByte('-') *) then
             match r2 with
             | [] => None                        (* unfinished character range *)
             | mx :: r3 =>
               if mx <? ch (* ch > max: swap *)
               then class_loop r3 (set_range chars mx ch)
               else class_loop r3 (set_range chars ch mx)
             end
           else class_loop r1 (set_range chars ch ch)   (* chars[ch] = true *)
         | [] => class_loop r1 (set_range chars ch ch)
         end
  end.

(* func (p *Pattern) addTransitions(from, chars, to): one transition per maximal
   run of true entries.  [run] is the start of the run that is open at index i. *)
Fixpoint runs_from (chars : list bool) (i : N) (run : option N) : list (N * N) :=
  match chars with
  | [] => match run with Some st => [(st, i - 1)] | None => [] end
  | b :: t =>
    match run with
    | None => if b then runs_from t (N.succ i) (Some i) else runs_from t (N.succ i) None
    | Some st => if b then runs_from t (N.succ i) run
                 else (st, i - 1) :: runs_from t (N.succ i) None
    end
  end.
Definition runs (chars : list bool) : list (N * N) := runs_from chars 0 None.

Fixpoint add_transitions_list (p : pattern) (from : N) (rs : list (N * N)) (to : N) : option pattern :=
  match rs with
  | [] => Some p
  | (lo, hi) :: rs' =>
    match add_transition p from (mkT lo hi to) with
    | Some p' => add_transitions_list p' from rs' to
    | None => None
    end
  end.
Definition add_transitions (p : pattern) (from : N) (chars : list bool) (to : N) : option pattern :=
  add_transitions_list p from (runs chars) to.

(* func (p *Pattern) compileCharClass(lex, ch, s) (stateID, error)
   Ok None = error; Ok (Some (p', next, rest')) *)
Definition compile_char_class (p : pattern) (rest : str) (s : N) : res (option (pattern * N * str)) :=
  let (negate, rest1) := skip_byte 94 (* '^' *) rest in
  let (p1, next) := add_state p false in
  match class_loop rest1 chars_empty with
  | None => Ok None
  | Some (chars, rest2) =>
    let chars' := if negate then map negb chars else chars in
    match add_transitions p1 s chars' next with
    | Some p2 => Ok (Some (p2, next, rest2))
    | None => Panic
    end
  end.

(* ---------- Compile ---------- *)

Definition set_end (p : pattern) (s : N) : option pattern :=
  upd_n p s (fun st => mkS (trans st) true).

(* one literal byte (or '?': 0..255) leading to a fresh state *)
Definition compile_single (p : pattern) (s lo hi : N) : option (pattern * N) :=
  let (p1, next) := add_state p false in
  match add_transition p1 s (mkT lo hi next) with
  | Some p2 => Some (p2, next)
  | None => None
  end.

Fixpoint compile_loop (fuel : nat) (p : pattern) (s : N) (rest : str) : res (option pattern) :=
  match fuel with
  | O => OutOfFuel
  | S f =>
    match rest with
    | [] => match set_end p s with Some p' => Ok (Some p') | None => Panic end
    | ch :: rest1 =>
      if ch =? 42 (* '*' *) then
        match add_transition p s (mkT 0 255 s) with
        | Some p1 => compile_loop f p1 s rest1
        | None => Panic
        end
      else if ch =? 63 (* '?' *) then
        match compile_single p s 0 255 with
        | Some (p2, next) => compile_loop f p2 next rest1
        | None => Panic
        end
      else if ch =? 92 (* '\\' *) then
        match rest1 with
        | [] => Ok None                           (* unfinished escape sequence *)
        | ch2 :: rest2 =>
          match compile_single p s ch2 ch2 with
          | Some (p2, next) => compile_loop f p2 next rest2
          | None => Panic
          end
        end
      else if ch =? 91 (* '[' *) then
        match compile_char_class p rest1 s with
        | Ok (Some (p2, next, rest2)) => compile_loop f p2 next rest2
        | Ok None => Ok None
        | Panic => Panic
        | OutOfFuel => OutOfFuel
        end
      else
        match compile_single p s ch ch with
        | Some (p2, next) => compile_loop f p2 next rest1
        | None => Panic
        end
    end
  end.

(* func Compile(pattern string): returns a Pattern or an error *)
Definition compile (pat : str) : res (option pattern) :=
  let (p0, s) := add_state [] false in
  compile_loop (S (length pat)) p0 s pat.

(* ---------- Match ---------- *)

Definition fires (c : N) (t : transition) : bool := (tmin t <=? c) && (c <=? tmax t).

(* next[i] = true; None = index out of range *)
Definition set_true (l : list bool) (i : N) : option (list bool) := upd_n l i (fun _ => true).

(* for _, tr := range p.states[si].transitions { if tr.min <= ch && ch <= tr.max { next[tr.to] = true; ok = true } } *)
Fixpoint step_trans (ts : list transition) (c : N) (next : list bool) (ok : bool) : option (list bool * bool) :=
  match ts with
  | [] => Some (next, ok)
  | t :: ts' =>
    if fires c t then
      match set_true next (tto t) with
      | Some next' => step_trans ts' c next' true
      | None => None
      end
    else step_trans ts' c next ok
  end.

(* for si := range curr { if !curr[si] { continue }; ... }   (len(curr) = len(p.states)) *)
Fixpoint step_all (sts : list state) (curr : list bool) (c : N) (next : list bool) (ok : bool) : option (list bool * bool) :=
  match sts, curr with
  | st :: sts', b :: curr' =>
    if b then
      match step_trans (trans st) c next ok with
      | Some (next', ok') => step_all sts' curr' c next' ok'
      | None => None
      end
    else step_all sts' curr' c next ok
  | _, _ => Some (next, ok)
  end.

(* for i, curr := range curr { if curr && p.states[i].end { return true } } *)
Fixpoint any_end (sts : list state) (curr : list bool) : bool :=
  match sts, curr with
  | st :: sts', b :: curr' => (b && fin st) || any_end sts' curr'
  | _, _ => false
  end.

Fixpoint match_loop (a : pattern) (curr : list bool) (s : str) : res bool :=
  match s with
  | [] => Ok (any_end a curr)
  | c :: s' =>
    match step_all a curr c (zeros_like false a) false with
    | None => Panic
    | Some (next, ok) => if ok then match_loop a next s' else Ok false
    end
  end.

(* func (p *Pattern) Match(s string) bool *)
Definition matchp (a : pattern) (s : str) : res bool :=
  match a with
  | [] => Ok false
  | _ :: a' => match_loop a (true :: zeros_like false a') s
  end.

(* ---------- Intersect ---------- *)

(* res Pattern; newState map[[2]stateID]stateID *)
Record istate := mkI { ires : pattern; imap : list (N * N * N) }.

Fixpoint lookup (s1 s2 : N) (m : list (N * N * N)) : option N :=
  match m with
  | [] => None
  | (k1, k2, v) :: m' => if (k1 =? s1) && (k2 =? s2) then Some v else lookup s1 s2 m'
  end.

(* stateFor; None = p1.states[s1] or p2.states[s2] out of range *)
Definition state_for (p1 p2 : pattern) (st : istate) (s1 s2 : N) : option (istate * N) :=
  match lookup s1 s2 (imap st) with
  | Some ns => Some (st, ns)
  | None =>
    match nth_n p1 s1, nth_n p2 s2 with
    | Some x1, Some x2 =>
      let (r, ns) := add_state (ires st) (fin x1 && fin x2) in
      Some (mkI r ((s1, s2, ns) :: imap st), ns)
    | _, _ => None
    end
  end.

Definition bmin (a b : N) : N := if a <? b then a else b.
Definition bmax (a b : N) : N := if b <? a then a else b.

(* the body of the innermost loop *)
Definition isect_pair (p1 p2 : pattern) (i1 i2 : N) (t1 t2 : transition) (st : istate) : option istate :=
  let mn := bmax (tmin t1) (tmin t2) in
  let mx := bmin (tmax t1) (tmax t2) in
  if mn <=? mx then
    match state_for p1 p2 st (to_state_id i1) (to_state_id i2) with
    | None => None
    | Some (st1, from) =>
      match state_for p1 p2 st1 (tto t1) (tto t2) with
      | None => None
      | Some (st2, to) =>
        match add_transition (ires st2) from (mkT mn mx to) with
        | Some r => Some (mkI r (imap st2))
        | None => None
        end
      end
    end
  else Some st.

Fixpoint isect_t2 p1 p2 i1 i2 t1 (ts2 : list transition) (st : istate) : option istate :=
  match ts2 with
  | [] => Some st
  | t2 :: ts2' => match isect_pair p1 p2 i1 i2 t1 t2 st with
                  | Some st' => isect_t2 p1 p2 i1 i2 t1 ts2' st'
                  | None => None
                  end
  end.

Fixpoint isect_t1 p1 p2 i1 i2 (ts1 ts2 : list transition) (st : istate) : option istate :=
  match ts1 with
  | [] => Some st
  | t1 :: ts1' => match isect_t2 p1 p2 i1 i2 t1 ts2 st with
                  | Some st' => isect_t1 p1 p2 i1 i2 ts1' ts2 st'
                  | None => None
                  end
  end.

(* for i2, s2 := range p2.states *)
Fixpoint isect_s2 p1 p2 i1 (s1 : state) (sts2 : list state) (i2 : N) (st : istate) : option istate :=
  match sts2 with
  | [] => Some st
  | s2 :: sts2' => match isect_t1 p1 p2 i1 i2 (trans s1) (trans s2) st with
                   | Some st' => isect_s2 p1 p2 i1 s1 sts2' (N.succ i2) st'
                   | None => None
                   end
  end.

(* for i1, s1 := range p1.states *)
Fixpoint isect_s1 p1 p2 (sts1 : list state) (i1 : N) (st : istate) : option istate :=
  match sts1 with
  | [] => Some st
  | s1 :: sts1' => match isect_s2 p1 p2 i1 s1 p2 0 st with
                   | Some st' => isect_s1 p1 p2 sts1' (N.succ i1) st'
                   | None => None
                   end
  end.

(* func Intersect(p1, p2) returns a Pattern *)
Definition intersect (p1 p2 : pattern) : res pattern :=
  match state_for p1 p2 (mkI [] []) 0 0 with
  | None => Panic
  | Some (st0, _) =>
    match isect_s1 p1 p2 p1 0 st0 with
    | Some st => Ok (ires st)
    | None => Panic
    end
  end.

(* ---------- reachable, CanMatch ---------- *)

Inductive progress_state := Unseen | Todo | Done.

(* for _, tr := range p.states[i].transitions { if progress[tr.to] == unseen { progress[tr.to] = todo } } *)
Fixpoint mark_targets (ts : list transition) (progress : list progress_state) : option (list progress_state) :=
  match ts with
  | [] => Some progress
  | t :: ts' =>
    match nth_n progress (tto t) with
    | None => None
    | Some Unseen =>
      match upd_n progress (tto t) (fun _ => Todo) with
      | Some pr' => mark_targets ts' pr'
      | None => None
      end
    | Some _ => mark_targets ts' progress
    end
  end.

(* one pass of "for i, pr := range progress": the elements are read while
   the slice is being modified, so a state marked todo at a higher index is
   handled in the same pass *)
Fixpoint reach_pass (sts : list state) (i : N) (progress : list progress_state) (reach : list bool) (again : bool)
  : option (list progress_state * list bool * bool) :=
  match sts with
  | [] => Some (progress, reach, again)
  | st :: sts' =>
    match nth_n progress i with
    | None => None
    | Some Todo =>
      match set_true reach i, upd_n progress i (fun _ => Done) with
      | Some reach1, Some pr1 =>
        match mark_targets (trans st) pr1 with
        | Some pr2 => reach_pass sts' (N.succ i) pr2 reach1 true
        | None => None
        end
      | _, _ => None
      end
    | Some _ => reach_pass sts' (N.succ i) progress reach again
    end
  end.

(* again: ... if again { goto again } *)
Fixpoint reach_loop (fuel : nat) (a : pattern) (progress : list progress_state) (reach : list bool) : res (list bool) :=
  match fuel with
  | O => OutOfFuel
  | S f =>
    match reach_pass a 0 progress reach false with
    | None => Panic
    | Some (pr', reach', again) => if again then reach_loop f a pr' reach' else Ok reach'
    end
  end.

(* func (p *Pattern) reachable() []bool *)
Definition reachable (a : pattern) : res (list bool) :=
  match upd_n (zeros_like Unseen a) 0 (fun _ => Todo) with   (* progress[0] = todo *)
  | None => Panic
  | Some pr0 => reach_loop (S (S (length a))) a pr0 (zeros_like false a)
  end.

(* func (p *Pattern) CanMatch() bool *)
Definition can_match (a : pattern) : res bool :=
  match a with
  | [] => Ok false
  | _ =>
    match reachable a with
    | Ok reach => Ok (any_end a reach)
    | Panic => Panic
    | OutOfFuel => OutOfFuel
    end
  end.

(* ---------- Number ---------- *)

(* func Number() *Pattern: the literal, regenerated into Gen/NumberAutomaton.v
   as a list of (list of (min, max, to), end) *)
Definition number : pattern :=
  map (fun st => mkS (map (fun t => mkT (fst (fst t)) (snd (fst t)) (snd t)) (fst st)) (snd st)) number_table.

(* ---------- mkcondsimplifier.go: mayMatchNumber ---------- *)

(* func mayMatchNumber(pattern string) (bool, error), a method of MkCondSimplifier;
   the second component says whether err != nil *)
Definition may_match_number (pat : str) : res (bool * bool) :=
  match pat with
  | [] => Ok (false, false)
  | _ =>
    match compile pat with
    | Ok None => Ok (true, true)
    | Ok (Some p) =>
      match intersect p number with
      | Ok both =>
        match can_match both with
        | Ok b => Ok (b, false)
        | Panic => Panic
        | OutOfFuel => OutOfFuel
        end
      | Panic => Panic
      | OutOfFuel => OutOfFuel
      end
    | Panic => Panic
    | OutOfFuel => OutOfFuel
    end
  end.
