(* Model of the splitting functions of /repo/v23/mklineparser.go:
   unescapeComment, split, tokenize, getRawValueAlign, matchVarassign
   (for a logical line that consists of one raw line).  Definitions only. *)
From PV Require Import Lib.Bytes Gen.MkByteSets Model.MkLexPrim Model.MkLexer Model.MkTokensLexer.
Open Scope N_scope.

(* unescapeMkCommentSafeChars = NewByteSet("\\#[\n").Inverse() *)
Definition comment_safe (c : N) : bool := negb (in_set unescape_unsafe_spec c).

(* unescapeComment(text): (main, comment); every round of `goto again` chops
   off at least one byte *)
Fixpoint unescape_comment_loop (fuel : nat) (s : str) : res (str * str) :=
  match fuel with
  | O => OutOfFuel
  | S f =>
    let again (written rest : str) :=
      '(m, c) <- unescape_comment_loop f rest ;; Ok (written ++ m, c) in
    let '(plain, r) := next_bytes comment_safe s in
    match plain with
    | _ :: _ => again plain r
    | [] =>
      match skip_string [92; 35] s with
      | Some r1 => again [35] r1
      | None =>
        if peek_is s 92 && (2 <=? length s)%nat then
          r2 <- skip 2 s ;; again (firstn 2 s) r2
        else
          match skip_byte 92 s with
          | Some r3 => again [92] r3
          | None =>
            match skip_string [91; 35] s with
            | Some r4 => again [91; 35] r4
            | None =>
              match skip_byte 91 s with
              | Some r5 => again [91] r5
              | None =>
                if peek_is s 35 then Ok ([], s)
                else match s with
                     | [] => Ok ([], [])
                     | _ => Panic                      (* assert(lexer.EOF()) *)
                     end
              end
            end
          end
      end
    end
  end.

Definition unescape_comment (s : str) : res (str * str) :=
  unescape_comment_loop (S (length s)) s.

(* mkLineSplitResult without tokens and rationale *)
Record split_result : Type := mk_split {
  sr_main : str;
  sr_space_before_comment : str;
  sr_has_comment : bool;
  sr_comment : str
}.

(* split(text, trimComment) *)
Definition split (text : str) (trim_comment : bool) : res split_result :=
  if peek_is text 9 then Panic                          (* assert(!hasPrefix(text, "\t")) *)
  else
    '(main_with_spaces, comment) <-
      (if trim_comment then unescape_comment text else Ok (text, [])) ;;
    let has_comment := nonempty comment in
    let comment' := if has_comment then skipn 1 comment else comment in
    let main_trimmed := rtrim_hspace main_with_spaces in
    let space := skipn (length main_trimmed) main_with_spaces in
    Ok (mk_split main_trimmed space has_comment comment').

(* parseOther of tokenize *)
Definition parse_other_step : step :=
  orelse (st_string [36; 36]) (st_bytes (fun b => negb (b =? 36))).

(* tokenize(text, diag): the tokens (no rest: a lone $ becomes a text token) *)
Fixpoint tokenize_loop (E : exprfn) (fuel : nat) (s : str) : res (list token) :=
  match fuel with
  | O => OutOfFuel
  | S f =>
    match s with
    | [] => Ok []
    | _ =>
      let mark := s in
      e <- E s ;;
      match e with
      | Some s1 =>
        toks <- tokenize_loop E f s1 ;; Ok ((since mark s1, true) :: toks)
      | None =>
        s1 <- loop parse_other_step s ;;
        match since mark s1 with
        | (_ :: _) as other =>
          toks <- tokenize_loop E f s1 ;; Ok ((other, false) :: toks)
        | [] =>
          match skip_byte 36 s with
          | Some s2 => toks <- tokenize_loop E f s2 ;; Ok (([36], false) :: toks)
          | None => Panic                               (* assert(lexer.SkipByte('$')) *)
          end
        end
      end
    end
  end.

Definition tokenize (s : str) : res (list token) := tokenize_loop Expr (S (length s)) s.

(* getRawValueAlign(raw, parsed): r and p are the two lexers *)
Fixpoint raw_value_align_loop (fuel : nat) (r p : str) : res str :=
  match fuel with
  | O => OutOfFuel
  | S f =>
    match p with
    | [] => Ok r
    | pch :: p1 =>
      if match r with rch :: _ => pch =? rch | [] => false end then
        r1 <- skip 1 r ;; raw_value_align_loop f r1 p1
      else if is_hspace pch then
        raw_value_align_loop f (snd (next_bytes is_hspace r)) (snd (next_bytes is_hspace p))
      else if negb (pch =? 35) then Panic               (* assert(pch == '#') *)
      else
        match skip_string [92; 35] r with
        | Some r1 => raw_value_align_loop f r1 p1
        | None => Panic                                 (* assert(r.SkipString("\\#")) *)
        end
    end
  end.

Definition get_raw_value_align (raw parsed : str) : res str :=
  r <- raw_value_align_loop (S (length parsed)) raw parsed ;;
  Ok (since raw r).

(* the embedded textproc.Lexer methods on a MkTokensLexer act on the current text *)
Definition tl_lift (f : str -> str) (m : tlexer) : tlexer := (f (fst m), snd m).

Fixpoint skip_spaces (s : str) : str :=                 (* for lexer.SkipByte(' ') { } *)
  match s with
  | c :: t => if c =? 32 then skip_spaces t else s
  | [] => s
  end.

Record varassign : Type := mk_varassign {
  va_commented : bool;
  va_varname : str;
  va_space_after_varname : str;
  va_op : str;
  va_value : str;
  va_value_align : str;            (* the local variable valueAlign *)
  va_split : split_result          (* *splitResult after the call *)
}.

(* matchVarassign after the decision whether the line is a commented assignment:
   sr is *splitResult at that point (re-split from text[1:] when commented) *)
Definition match_varassign_tail (commented : bool) (text : str) (sr : split_result)
    : res (option varassign) :=
  toks <- tokenize (sr_main sr) ;;
  let lexer0 := tl_new toks in
  let main_start := lexer0 in
  let lexer1 := if commented then lexer0 else tl_lift skip_spaces lexer0 in
  let rest1 := tl_rest lexer1 in
  '(vname, mkrest) <- Varname rest1 ;;
  lexer2 <- tl_skip_mixed (S (length rest1))
              (Z.of_nat (length rest1) - Z.of_nat (length mkrest))%Z lexer1 ;;
  match vname with
  | [] => Ok None
  | _ =>
    let '(space_after_varname, cur3) := next_bytes is_hspace (fst lexer2) in
    let lexer3 : tlexer := (cur3, snd lexer2) in
    let op_start := lexer3 in
    let cur4 := match cur3 with
                | c :: t => if (c =? 33) || (c =? 43) || (c =? 58) || (c =? 63) then t else cur3
                | [] => cur3
                end in
    match skip_byte 61 cur4 with
    | None => Ok None
    | Some cur5 =>
      let lexer5 : tlexer := (cur5, snd lexer2) in
      let op0 := tl_since op_start lexer5 in
      (* NewMkOperator panics on anything else *)
      if negb (existsb (str_eqb op0) [[61]; [33; 61]; [58; 61]; [43; 61]; [63; 61]]) then Panic
      else
        let '(vname', op) :=
          if has_suffix [43] vname && str_eqb op0 [61] && negb (nonempty space_after_varname)
          then (firstn (length vname - 1) vname, [43; 61])
          else (vname, op0) in
        let lexer6 := tl_lift (fun s => snd (next_bytes is_hspace s)) lexer5 in
        let value := trim_hspace (tl_rest lexer6) in
        let parsed_value_align := (if commented then [35] else []) ++ tl_since main_start lexer6 in
        align <- get_raw_value_align text parsed_value_align ;;
        let '(align', sr') :=
          match value with
          | [] => (align ++ sr_space_before_comment sr,
                   mk_split (sr_main sr) [] (sr_has_comment sr) (sr_comment sr))
          | _ => (align, sr)
          end in
        Ok (Some (mk_varassign commented vname' space_after_varname op value align' sr'))
    end
  end.

(* matchVarassign(line, text, &splitResult) for line.raw[0].Orig() = text;
   `first` is what Parse computed before: split(text, true) *)
Definition match_varassign (text : str) (first : split_result) : res (option varassign) :=
  let commented := negb (nonempty (sr_main first)) && sr_has_comment first && has_prefix [35] text in
  if commented then
    let '(hs, crest) := next_bytes is_hspace (sr_comment first) in
    if nonempty hs || negb (nonempty crest) then Ok None
    else
      t1 <- skip 1 text ;;                             (* text[1:] *)
      sr <- split t1 true ;;
      match_varassign_tail true text sr
  else match_varassign_tail false text first.

(* what MkLineParser.Parse does for a line that does not start with a tab, up
   to matchVarassign *)
Definition parse_varassign (text : str) : res (option varassign) :=
  first <- split text true ;;
  match_varassign text first.
