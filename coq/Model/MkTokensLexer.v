(* Model of /repo/v23/mktokenslexer.go (MkTokensLexer): a textproc.Lexer over the
   current text-only token plus the remaining tokens.  Definitions only. *)
From PV Require Import Lib.Bytes Model.MkLexPrim.
Open Scope N_scope.

Definition token := (str * bool)%type.           (* Text, Expr != nil *)
Definition tlexer := (str * list token)%type.    (* embedded Lexer's rest, m.tokens *)

(* next() *)
Definition tl_next (toks : list token) : tlexer :=
  match toks with
  | (text, false) :: rest => (text, rest)
  | _ => ([], toks)
  end.

(* NewMkTokensLexer(tokens) *)
Definition tl_new (toks : list token) : tlexer := tl_next toks.

(* EOF() *)
Definition tl_eof (m : tlexer) : bool :=
  match m with
  | ([], []) => true
  | _ => false
  end.

(* Rest(): the LazyStringBuilder is a plain string builder *)
Definition tl_rest (m : tlexer) : str := fst m ++ concat (map fst (snd m)).

(* NextExpr() *)
Definition tl_next_expr (m : tlexer) : option (token * tlexer) :=
  match m with
  | ([], (text, true) :: rest) => Some ((text, true), tl_next rest)
  | _ => None
  end.

(* Since(mark): strings.TrimSuffix(early, late) *)
Definition trim_suffix (s suf : str) : str :=
  if has_suffix suf s then firstn (length s - length suf) s else s.
Definition tl_since (mark m : tlexer) : str := trim_suffix (tl_rest mark) (tl_rest m).

(* SkipMixed(n): n is an int; every iteration either consumes a token or at
   least one byte, or an assert fails *)
Fixpoint tl_skip_mixed (fuel : nat) (n : Z) (m : tlexer) : res tlexer :=
  match fuel with
  | O => OutOfFuel
  | S f =>
    if (n <=? 0)%Z then Ok m
    else
      match tl_next_expr m with
      | Some ((text, _), m') =>
        let n' := (n - Z.of_nat (length text))%Z in
        if (n' <? 0)%Z then Panic                       (* assert(n >= 0) *)
        else tl_skip_mixed f n' m'
      | None =>
        let skip_n := Z.min (Z.of_nat (length (fst m))) n in
        if (skip_n <=? 0)%Z then Panic                  (* assert(m.Lexer.Skip(skip)) *)
        else tl_skip_mixed f (n - skip_n)%Z (skipn (Z.to_nat skip_n) (fst m), snd m)
      end
  end.
