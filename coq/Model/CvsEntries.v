(* Model of pkglint's reading of CVS/Entries and CVS/Entries.Log
   (pkglint.go, Pkglint.loadCvsEntries), of Go's
   time.Unix(secs, 0).UTC().Format(time.ANSIC), and of util.go isLocallyModified.

   Strings are byte lists (Lib/Bytes.v).  Numbers are Z.  No proofs in this
   file; the theorems are in Proofs/CvsEntries.v. *)
From PV Require Import Lib.Bytes.
Import ListNotations.
Open Scope N_scope.

(* ------------------------------------------------------------------ *)
(* 1. CVS/Entries lines                                                *)
(* ------------------------------------------------------------------ *)

Record cvs_entry := mk_cvs_entry {
  ce_name : str; ce_revision : str; ce_timestamp : str; ce_options : str; ce_tagdate : str }.

Inductive parse_result := PrIgnored | PrInvalid | PrEntry (e : cvs_entry).

(* strings.Split(s, "/"): always at least one field; "" -> [""] *)
Fixpoint split_slash (s : str) : list str :=
  match s with
  | [] => [[]]
  | c :: s' =>
      if c =? 47 then [] :: split_slash s'
      else match split_slash s' with
           | f :: fs => (c :: f) :: fs
           | [] => [[c]]   (* unreachable: split_slash never returns [] *)
           end
  end.

(* strings.Join(fields, "/") *)
Fixpoint join_slash (l : list str) : str :=
  match l with
  | [] => []
  | [x] => x
  | x :: l' => x ++ [47] ++ join_slash l'
  end.

(* the body of `handle` up to the map update:
     if !hasPrefix(text, "/") { return }
     fields := strings.Split(text, "/")
     if len(fields) != 6 { line.Errorf("Invalid line: %s", ...); return }
     CvsEntry{fields[1], fields[2], fields[3], fields[4], fields[5]} *)
Definition parse_entry_line (text : str) : parse_result :=
  if has_prefix [47] text then
    match split_slash text with
    | [_; f1; f2; f3; f4; f5] => PrEntry (mk_cvs_entry f1 f2 f3 f4 f5)
    | _ => PrInvalid
    end
  else PrIgnored.

(* a Go map as association list with duplicate-free keys *)
Definition entries := list (str * cvs_entry).

(* entries[key] = e : replace in place, or append *)
Fixpoint entries_put (es : entries) (k : str) (e : cvs_entry) : entries :=
  match es with
  | [] => [(k, e)]
  | (k', e') :: es' =>
      if str_eqb k k' then (k, e) :: es' else (k', e') :: entries_put es' k e
  end.
Definition entries_add (es : entries) (e : cvs_entry) : entries := entries_put es (ce_name e) e.

(* delete(entries, k) *)
Fixpoint entries_del (es : entries) (k : str) : entries :=
  match es with
  | [] => []
  | (k', e') :: es' => if str_eqb k k' then entries_del es' k else (k', e') :: entries_del es' k
  end.

(* entries[k] *)
Fixpoint entries_lookup (es : entries) (k : str) : option cvs_entry :=
  match es with
  | [] => None
  | (k', e') :: es' => if str_eqb k k' then Some e' else entries_lookup es' k
  end.

(* handle(line, add, text); the state is (map, number of "Invalid line" errors) *)
Definition handle_line (st : entries * N) (add : bool) (text : str) : entries * N :=
  match parse_entry_line text with
  | PrIgnored => st
  | PrInvalid => (fst st, snd st + 1)
  | PrEntry e => (if add then entries_add (fst st) e else entries_del (fst st) (ce_name e), snd st)
  end.

(* one line of CVS/Entries.Log: "A " adds, "R " removes, anything else is ignored *)
Definition handle_log_line (st : entries * N) (text : str) : entries * N :=
  match strip_prefix [65; 32] text with
  | Some rest => handle_line st true rest
  | None =>
      match strip_prefix [82; 32] text with
      | Some rest => handle_line st false rest
      | None => st
      end
  end.

(* load_entries entries_lines log_lines = (resulting map, number of "Invalid line"
   errors logged); log_lines = [] when there is no Entries.Log.  (CVS/Entries
   itself could be loaded; otherwise the Go map is nil and nothing is looked at.) *)
Definition load_entries (entries_lines log_lines : list str) : entries * N :=
  let st1 := fold_left (fun st l => handle_line st true l) entries_lines ([], 0) in
  fold_left handle_log_line log_lines st1.

(* ------------------------------------------------------------------ *)
(* 2. time.Unix(secs, 0).UTC().Format(time.ANSIC)                      *)
(*    ANSIC = "Mon Jan _2 15:04:05 2006"                               *)
(* ------------------------------------------------------------------ *)
Open Scope Z_scope.

(* Proleptic Gregorian calendar, Howard Hinnant's algorithms; an era is 400
   years = 146097 days and starts on March 1st of a year divisible by 400.
   All divisions are floor divisions (Z.div / Z.modulo, positive divisors). *)

(* day of era [0, 146097) -> (year of era [0, 399] counted from March,
   month 1..12, day of month 1..31) *)
Definition ymd_of_doe (doe : Z) : Z * Z * Z :=
  let yoe := (doe - doe / 1460 + doe / 36524 - doe / 146096) / 365 in
  let doy := doe - (365 * yoe + yoe / 4 - yoe / 100) in
  let mp := (5 * doy + 2) / 153 in
  let d := doy - (153 * mp + 2) / 5 + 1 in
  let m := if mp <? 10 then mp + 3 else mp - 9 in
  (yoe, m, d).

(* inverse *)
Definition doe_of_ymd (yoe m d : Z) : Z :=
  let mp := if 2 <? m then m - 3 else m + 9 in
  let doy := (153 * mp + 2) / 5 + d - 1 in
  yoe * 365 + yoe / 4 - yoe / 100 + doy.

(* days since 1970-01-01 -> (year (astronomical numbering), month 1..12, day 1..31) *)
Definition civil_from_days (z0 : Z) : Z * Z * Z :=
  let z := z0 + 719468 in
  let era := z / 146097 in
  let '(yoe, m, d) := ymd_of_doe (z mod 146097) in
  ((if m <=? 2 then 1 else 0) + yoe + era * 400, m, d).

Definition days_from_civil (ymd : Z * Z * Z) : Z :=
  let '(y, m, d) := ymd in
  let y' := y - (if m <=? 2 then 1 else 0) in
  let era := y' / 400 in
  era * 146097 + doe_of_ymd (y' mod 400) m d - 719468.

(* 0 = Sunday; 1970-01-01 was a Thursday *)
Definition weekday_of_days (d : Z) : Z := (d + 4) mod 7.

Definition day_name (w : Z) : str :=
  if w =? 0 then [83; 117; 110]%N        (* Sun *)
  else if w =? 1 then [77; 111; 110]%N   (* Mon *)
  else if w =? 2 then [84; 117; 101]%N   (* Tue *)
  else if w =? 3 then [87; 101; 100]%N   (* Wed *)
  else if w =? 4 then [84; 104; 117]%N   (* Thu *)
  else if w =? 5 then [70; 114; 105]%N   (* Fri *)
  else [83; 97; 116]%N.                  (* Sat *)

Definition month_name (m : Z) : str :=
  if m =? 1 then [74; 97; 110]%N          (* Jan *)
  else if m =? 2 then [70; 101; 98]%N     (* Feb *)
  else if m =? 3 then [77; 97; 114]%N     (* Mar *)
  else if m =? 4 then [65; 112; 114]%N    (* Apr *)
  else if m =? 5 then [77; 97; 121]%N     (* May *)
  else if m =? 6 then [74; 117; 110]%N    (* Jun *)
  else if m =? 7 then [74; 117; 108]%N    (* Jul *)
  else if m =? 8 then [65; 117; 103]%N    (* Aug *)
  else if m =? 9 then [83; 101; 112]%N    (* Sep *)
  else if m =? 10 then [79; 99; 116]%N    (* Oct *)
  else if m =? 11 then [78; 111; 118]%N   (* Nov *)
  else [68; 101; 99]%N.                   (* Dec *)

(* '0' + q *)
Definition digit_byte (q : Z) : N := Z.to_N (48 + q).

(* "02", "04", "05", "15": two digits, zero padded.  Only used for 0 <= n < 100. *)
Definition fmt2_zero (n : Z) : str := [digit_byte (n / 10); digit_byte (n mod 10)].
(* "_2": two columns, space padded.  Only used for 1 <= n <= 31. *)
Definition fmt2_space (n : Z) : str :=
  [if n <? 10 then 32%N else digit_byte (n / 10); digit_byte (n mod 10)].

(* decimal digits of u >= 0, most significant first *)
Fixpoint dec_digits_fuel (fuel : nat) (u : Z) (acc : str) : str :=
  match fuel with
  | O => acc
  | S f =>
      let acc' := digit_byte (u mod 10) :: acc in
      if u <? 10 then acc' else dec_digits_fuel f (u / 10) acc'
  end.
Definition dec_digits (u : Z) : str := dec_digits_fuel (S (Z.to_nat (Z.log2 u))) u [].

(* appendInt(b, u, 4) for u >= 0 *)
Definition fmt_abs4 (u : Z) : str :=
  if u <? 10000 then
    [digit_byte (u / 1000); digit_byte (u / 100 mod 10); digit_byte (u / 10 mod 10); digit_byte (u mod 10)]
  else dec_digits u.

(* time/format.go appendInt(b, year, 4): zero padded to width 4, more digits
   if needed, '-' followed by the padded absolute value for negative years *)
Definition fmt_year (y : Z) : str :=
  if y <? 0 then 45%N :: fmt_abs4 (- y) else fmt_abs4 y.

Definition ansic_utc (secs : Z) : str :=
  let days := secs / 86400 in
  let rem := secs mod 86400 in
  let '(y, m, d) := civil_from_days days in
  day_name (weekday_of_days days) ++ [32%N] ++ month_name m ++ [32%N] ++ fmt2_space d ++ [32%N]
    ++ fmt2_zero (rem / 3600) ++ [58%N] ++ fmt2_zero (rem mod 3600 / 60) ++ [58%N]
    ++ fmt2_zero (rem mod 60) ++ [32%N] ++ fmt_year y.

(* 0000-01-01T00:00:00Z and 10000-01-01T00:00:00Z: the instants whose year has 4 digits *)
Definition ansic_lo : Z := -62167219200.
Definition ansic_hi : Z := 253402300800.

(* ------------------------------------------------------------------ *)
(* 3. util.go isLocallyModified                                        *)
(* ------------------------------------------------------------------ *)

(* the process environment; NOT consulted by the faithful model *)
Record env := mk_env {
  env_tz_offset : Z -> Z;   (* seconds east of UTC at an instant *)
  env_user : str; env_home : str; env_locale : str; env_cwd : str; env_umask : N }.

(* st = None: Stat failed; Some secs = mtime in whole seconds since the epoch *)
Definition is_locally_modified (e : env) (es : entries) (name : str) (st : option Z) : bool :=
  match entries_lookup es name with
  | None => false
  | Some ent =>
      match st with
      | None => true
      | Some secs => negb (str_eqb (ce_timestamp ent) (ansic_utc secs))
      end
  end.

(* seeded mutant: formats the file time in the local time zone of the process *)
Definition is_locally_modified_local (e : env) (es : entries) (name : str) (st : option Z) : bool :=
  match entries_lookup es name with
  | None => false
  | Some ent =>
      match st with
      | None => true
      | Some secs => negb (str_eqb (ce_timestamp ent) (ansic_utc (secs + env_tz_offset e secs)))
      end
  end.
