(* UTF-8 decoding as Go does it (unicode/utf8.DecodeRuneInString, which is also
   what `for i, r := range s` uses): a rune and the number of bytes consumed;
   an invalid or truncated sequence yields (RuneError, 1).  Executable, no proofs
   beyond the two facts every user needs (width >= 1, width <= length). *)
From PV Require Import Lib.Bytes.
Open Scope N_scope.

Definition rune_error : N := 65533. (* U+FFFD *)

Definition is_cont (b : N) : bool := (128 <=? b) && (b <=? 191).
Definition in_range (lo hi b : N) : bool := (lo <=? b) && (b <=? hi).

(* decode_rune s = (rune, width).  Only called on non-empty strings; the empty
   string gives (RuneError, 0) as in Go. *)
Definition decode_rune (s : str) : N * nat :=
  match s with
  | [] => (rune_error, 0%nat)
  | b0 :: s1 =>
    if b0 <? 128 then (b0, 1%nat)
    else if b0 <? 194 then (rune_error, 1%nat)            (* 80..BF continuation, C0 C1 overlong *)
    else if b0 <? 224 then                                  (* C2..DF: two bytes *)
      match s1 with
      | b1 :: _ => if is_cont b1 then ((b0 - 192) * 64 + (b1 - 128), 2%nat) else (rune_error, 1%nat)
      | [] => (rune_error, 1%nat)
      end
    else if b0 <? 240 then                                  (* E0..EF: three bytes *)
      match s1 with
      | b1 :: b2 :: _ =>
        let lo := if b0 =? 224 then 160 else 128 in
        let hi := if b0 =? 237 then 159 else 191 in
        if in_range lo hi b1 then
          if is_cont b2 then ((b0 - 224) * 4096 + (b1 - 128) * 64 + (b2 - 128), 3%nat)
          else (rune_error, 1%nat)
        else (rune_error, 1%nat)
      | _ => (rune_error, 1%nat)
      end
    else if b0 <? 245 then                                  (* F0..F4: four bytes *)
      match s1 with
      | b1 :: b2 :: b3 :: _ =>
        let lo := if b0 =? 240 then 144 else 128 in
        let hi := if b0 =? 244 then 143 else 191 in
        if in_range lo hi b1 then
          if is_cont b2 then
            if is_cont b3 then
              ((b0 - 240) * 262144 + (b1 - 128) * 4096 + (b2 - 128) * 64 + (b3 - 128), 4%nat)
            else (rune_error, 1%nat)
          else (rune_error, 1%nat)
        else (rune_error, 1%nat)
      | _ => (rune_error, 1%nat)
      end
    else (rune_error, 1%nat)                                (* F5..FF *)
  end.

(* utf8.RuneLen: bytes needed to encode r; None = -1 (surrogate or > U+10FFFF) *)
Definition rune_len (r : N) : option nat :=
  if r <? 128 then Some 1%nat
  else if r <? 2048 then Some 2%nat
  else if (55296 <=? r) && (r <=? 57343) then None
  else if r <? 65536 then Some 3%nat
  else if r <=? 1114111 then Some 4%nat
  else None.

(* string(rune): UTF-8 encoding, invalid runes encode as U+FFFD *)
Definition encode_rune (r : N) : str :=
  if r <? 128 then [r]
  else if r <? 2048 then [192 + r / 64; 128 + r mod 64]
  else if ((55296 <=? r) && (r <=? 57343)) || (1114111 <? r) then [239; 191; 189]
  else if r <? 65536 then [224 + r / 4096; 128 + (r / 64) mod 64; 128 + r mod 64]
  else [240 + r / 262144; 128 + (r / 4096) mod 64; 128 + (r / 64) mod 64; 128 + r mod 64].

Lemma decode_rune_width_pos s : s <> [] -> (1 <= snd (decode_rune s))%nat.
Proof.
  destruct s as [|b0 s1]; [congruence|intros _]. unfold decode_rune.
  repeat match goal with
         | |- context [if ?c then _ else _] => destruct c
         | |- context [match ?l with [] => _ | _ :: _ => _ end] => destruct l
         end; simpl; lia.
Qed.

Lemma decode_rune_width_le s : (snd (decode_rune s) <= length s)%nat.
Proof.
  destruct s as [|b0 s1]; [simpl; lia|]. unfold decode_rune.
  repeat match goal with
         | |- context [if ?c then _ else _] => destruct c
         | |- context [match ?l with [] => _ | _ :: _ => _ end] => destruct l
         end; simpl; lia.
Qed.

Lemma decode_rune_ascii b s : b <? 128 = true -> decode_rune (b :: s) = (b, 1%nat).
Proof. intros H. unfold decode_rune. rewrite H. reflexivity. Qed.
