(* Result type for models in which every Go panic site is explicit (C01). *)
From Coq Require Import NArith.

Inductive res (A : Type) : Type :=
| Ok (a : A)
| Panic (site : N)
| OutOfFuel.
Arguments Ok {A} a.
Arguments Panic {A} site.
Arguments OutOfFuel {A}.

Definition bind {A B} (r : res A) (f : A -> res B) : res B :=
  match r with Ok a => f a | Panic s => Panic s | OutOfFuel => OutOfFuel end.

Definition is_ok {A} (r : res A) : Prop := exists a, r = Ok a.
