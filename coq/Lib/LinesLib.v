(* Generic list / byte-string lemmas used by the C09 and C18 proofs. *)
From PV Require Import Lib.Bytes.
From Coq Require Import ZifyBool ZifyN ZifyNat.
Open Scope N_scope.

Definition head_not (f : N -> bool) (s : str) : Prop :=
  match s with [] => True | c :: _ => f c = false end.

Lemma span_rest_head_not f s : head_not f (snd (span f s)).
Proof. exact (span_rest_head f s). Qed.

(* a span is determined by "all of a satisfy f, b does not start with an f-byte" *)
Lemma span_app_exact f a b :
  forallb f a = true -> head_not f b -> span f (a ++ b) = (a, b).
Proof.
  induction a as [|c a IH]; simpl; intros Ha Hb.
  - destruct b as [|d b]; simpl in *; [reflexivity|]. rewrite Hb. reflexivity.
  - apply andb_true_iff in Ha as [Hc Ha]. rewrite Hc, (IH Ha Hb). reflexivity.
Qed.

Lemma span_eq f s : span f s = (fst (span f s), snd (span f s)).
Proof. destruct (span f s); reflexivity. Qed.

Lemma has_prefix_true p s : has_prefix p s = true <-> exists r, s = p ++ r.
Proof.
  unfold has_prefix. destruct (strip_prefix p s) as [r|] eqn:E.
  - apply strip_prefix_some in E. split; [intros _; eauto|reflexivity].
  - split; [discriminate|]. intros [r Hr]. apply strip_prefix_some in Hr. congruence.
Qed.

Lemma last_snoc {A} (l : list A) (x d : A) : last (l ++ [x]) d = x.
Proof. apply last_last. Qed.

Lemma removelast_snoc {A} (l : list A) (x : A) : removelast (l ++ [x]) = l.
Proof. apply removelast_last. Qed.

Lemma list_snoc_cases {A} (l : list A) : l = [] \/ exists l' x, l = l' ++ [x].
Proof.
  destruct l as [|a l]; [left; reflexivity|right].
  destruct (exists_last (l := a :: l)) as [l' [x H]]; [discriminate|]. eauto.
Qed.

Lemma firstn_snoc_len {A} (l : list A) (x : A) : firstn (length (l ++ [x]) - 1) (l ++ [x]) = l.
Proof.
  rewrite app_length. simpl. replace (length l + 1 - 1)%nat with (length l + 0)%nat by lia.
  rewrite firstn_app_2. simpl. apply app_nil_r.
Qed.

(* splitting a list at "length minus a suffix length" *)
Lemma firstn_app_len {A} (a b : list A) : firstn (length (a ++ b) - length b) (a ++ b) = a.
Proof.
  rewrite app_length. replace (length a + length b - length b)%nat with (length a + 0)%nat by lia.
  rewrite firstn_app_2. simpl. apply app_nil_r.
Qed.

Lemma skipn_app_len {A} (a b : list A) : skipn (length (a ++ b) - length b) (a ++ b) = b.
Proof.
  rewrite app_length. replace (length a + length b - length b)%nat with (length a) by lia.
  rewrite skipn_app, skipn_all, Nat.sub_diag. reflexivity.
Qed.

Lemma forallb_rev {A} (f : A -> bool) (l : list A) : forallb f (rev l) = forallb f l.
Proof.
  induction l as [|a l IH]; simpl; [reflexivity|].
  rewrite forallb_app, IH. simpl. rewrite andb_true_r. apply andb_comm.
Qed.

Lemma concat_filter_nonempty {A} (l : list (list A)) :
  concat (filter (fun r => negb (match r with [] => true | _ => false end)) l) = concat l.
Proof.
  induction l as [|r l IH]; simpl; [reflexivity|].
  destruct r; simpl; [exact IH|]. rewrite IH. reflexivity.
Qed.
