(* Byte strings: a Go string is modelled as a list of bytes, a byte as an N < 256.
   Everything here is executable; lemmas are stdlib-only and closed under the
   global context. *)
From Coq Require Export List NArith ZArith Bool Lia.
From Coq Require Import ZifyBool ZifyN ZifyNat.
Export ListNotations.
Open Scope N_scope.

Definition byte := N.
Definition str := list N.

Definition is_digit (c : N) : bool := (48 <=? c) && (c <=? 57).
Definition is_lower (c : N) : bool := (97 <=? c) && (c <=? 122).
Definition is_upper (c : N) : bool := (65 <=? c) && (c <=? 90).
Definition is_alpha (c : N) : bool := is_lower c || is_upper c.
Definition is_alnum (c : N) : bool := is_alpha c || is_digit c.
Definition is_hspace (c : N) : bool := (c =? 32) || (c =? 9).
Definition to_lower (c : N) : N := if is_upper c then c + 32 else c.
Definition lower (s : str) : str := map to_lower s.
Definition is_ascii (c : N) : bool := c <? 128.

Fixpoint str_eqb (a b : str) : bool :=
  match a, b with
  | [], [] => true
  | x :: a', y :: b' => (x =? y) && str_eqb a' b'
  | _, _ => false
  end.

Lemma str_eqb_spec a b : str_eqb a b = true <-> a = b.
Proof.
  revert b; induction a as [|x a IH]; intros [|y b]; simpl; split; intro H;
    try reflexivity; try discriminate.
  - apply andb_true_iff in H as [H1 H2]. apply N.eqb_eq in H1. apply IH in H2. congruence.
  - inversion H; subst. rewrite N.eqb_refl. simpl. apply IH. reflexivity.
Qed.

Lemma str_eqb_refl a : str_eqb a a = true.
Proof. apply str_eqb_spec; reflexivity. Qed.

(* strip_prefix p s = Some r  iff  s = p ++ r  (strings.HasPrefix + slicing) *)
Fixpoint strip_prefix (p s : str) : option str :=
  match p with
  | [] => Some s
  | x :: p' => match s with
               | y :: s' => if x =? y then strip_prefix p' s' else None
               | [] => None
               end
  end.

Lemma strip_prefix_some p s r : strip_prefix p s = Some r <-> s = p ++ r.
Proof.
  revert s; induction p as [|x p IH]; intros s; simpl.
  - split; intro H; congruence.
  - destruct s as [|y s]; [split; intro H; discriminate|].
    destruct (N.eqb_spec x y) as [->|Hne].
    + rewrite IH. split; intro H; congruence.
    + split; intro H; [discriminate|]. inversion H; congruence.
Qed.

Definition has_prefix (p s : str) : bool :=
  match strip_prefix p s with Some _ => true | None => false end.

(* span f s = (longest prefix all of whose bytes satisfy f, the rest) *)
Fixpoint span (f : N -> bool) (s : str) : str * str :=
  match s with
  | [] => ([], [])
  | c :: s' => if f c then let (a, b) := span f s' in (c :: a, b) else ([], s)
  end.

Lemma span_app f s : fst (span f s) ++ snd (span f s) = s.
Proof.
  induction s as [|c s IH]; simpl; [reflexivity|].
  destruct (f c); [|reflexivity]. destruct (span f s) as [a b]; simpl in *. congruence.
Qed.

Lemma span_all f s : forallb f (fst (span f s)) = true.
Proof.
  induction s as [|c s IH]; simpl; [reflexivity|].
  destruct (f c) eqn:E; [|reflexivity]. destruct (span f s) as [a b]; simpl in *.
  rewrite E; exact IH.
Qed.

Lemma span_rest_head f s : match snd (span f s) with [] => True | c :: _ => f c = false end.
Proof.
  induction s as [|c s IH]; simpl; [exact I|].
  destruct (f c) eqn:E; [|simpl; exact E]. destruct (span f s) as [a b]; simpl in *. exact IH.
Qed.

Lemma span_length f s : (length (fst (span f s)) + length (snd (span f s)) = length s)%nat.
Proof. rewrite <- app_length, span_app. reflexivity. Qed.

(* decimal value of a digit string, unbounded *)
Definition digit_val (c : N) : Z := Z.of_N c - 48.
Definition dec_value (ds : str) : Z := fold_left (fun acc c => acc * 10 + digit_val c)%Z ds 0%Z.

(* suffix relation: r is what is left of s after chopping off a prefix *)
Definition is_suffix (r s : str) : Prop := exists c, s = c ++ r.

Lemma is_suffix_refl s : is_suffix s s.
Proof. exists []; reflexivity. Qed.

Lemma is_suffix_trans a b c : is_suffix a b -> is_suffix b c -> is_suffix a c.
Proof. intros [x ->] [y ->]. exists (y ++ x). rewrite app_assoc. reflexivity. Qed.

Lemma is_suffix_length r s : is_suffix r s -> (length r <= length s)%nat.
Proof. intros [c ->]. rewrite app_length. lia. Qed.

Lemma is_suffix_cons c s : is_suffix s (c :: s).
Proof. exists [c]; reflexivity. Qed.

Lemma is_suffix_skipn n s : is_suffix (skipn n s) s.
Proof. exists (firstn n s). symmetry; apply firstn_skipn. Qed.
