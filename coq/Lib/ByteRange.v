(* The domain of Go strings inside list N: every element is a byte. *)
From PV Require Import Lib.Bytes.
Open Scope N_scope.

Definition is_bytes (s : str) : Prop := Forall (fun c => c < 256) s.
Definition is_bytesb (s : str) : bool := forallb (fun c => c <? 256) s.

Lemma is_bytesb_spec s : is_bytesb s = true <-> is_bytes s.
Proof.
  unfold is_bytesb, is_bytes. rewrite forallb_forall, Forall_forall.
  split; intros H c Hc; specialize (H c Hc); [apply N.ltb_lt|apply N.ltb_lt]; exact H.
Qed.
