//go:build verif

package pkglint

import "bytes"

// VerifC17RedundantDir feeds makefile lines WITH directives through the real
// parser and RedundantScope.Check, with a freshly initialised G whose pkgsrc
// root is "." (so a file named mk/... belongs to the infrastructure).
//
// asPackage == false: all lines form ONE MkLines (NewMkLines computes its guard
// line over them), as CheckFileMk does for a file checked on its own.
//
// asPackage == true: what Package.load does.  Every file (all lines with the
// same name) is parsed by its own NewMkLines; the *MkLine objects are then
// appended, in the given order, to an allLines that was created empty (no guard
// line of its own), and IsRelevant drops what flags a line of the infrastructure.
func VerifC17RedundantDir(lines []VerifC17Line, asPackage bool) (output string, panicked string) {
	var out bytes.Buffer
	saved := G
	defer func() { G = saved }()
	G = NewPkglint(&out, &out)
	G.Pkgsrc = NewPkgsrc(NewCurrPath("."))

	panicked = VerifPanic(func() {
		if len(lines) == 0 {
			return
		}
		mk := func(l VerifC17Line) *Line {
			return NewLine(NewCurrPath(NewPath(l.File)), l.Lineno, l.Text, &RawLine{l.Text + "\n"})
		}
		if !asPackage {
			var ls []*Line
			for _, l := range lines {
				ls = append(ls, mk(l))
			}
			mklines := NewMkLines(NewLines(NewCurrPath(NewPath(lines[0].File)), ls), nil, nil)
			out.Reset() // diagnostics of the parser are not the subject here
			NewRedundantScope().Check(mklines)
			return
		}
		var order []string
		perFile := map[string][]*Line{}
		pos := make([]int, len(lines))
		for i, l := range lines {
			if _, ok := perFile[l.File]; !ok {
				order = append(order, l.File)
			}
			pos[i] = len(perFile[l.File])
			perFile[l.File] = append(perFile[l.File], mk(l))
		}
		parsed := map[string]*MkLines{}
		for _, f := range order {
			parsed[f] = NewMkLines(NewLines(NewCurrPath(NewPath(f)), perFile[f]), nil, nil)
		}
		allLines := NewMkLines(NewLines("", nil), nil, nil)
		for i, l := range lines {
			mkline := parsed[l.File].mklines[pos[i]]
			allLines.mklines = append(allLines.mklines, mkline)
			allLines.lines.Lines = append(allLines.lines.Lines, mkline.Line)
		}
		out.Reset()
		scope := NewRedundantScope()
		scope.IsRelevant = func(mkline *MkLine) bool {
			return G.CheckGlobal || !G.Pkgsrc.IsInfra(mkline.Filename())
		}
		scope.Check(allLines)
	})
	return out.String(), panicked
}
