//go:build verif

package pkglint

// Read-only drivers for part C10sh (the shell tokenizer, shtokenizer.go).
// Never part of /repo; copied into the scratch mirror by bin/check.

// VerifC10shAtom is one atom as the property sees it.
type VerifC10shAtom struct {
	Type    int
	Text    string
	Quoting int
}

// VerifC10shToken is one result of ShToken plus Rest() right after the call.
type VerifC10shToken struct {
	Text  string
	Atoms []VerifC10shAtom
	Rest  string
}

func verifC10shAtom(a *ShAtom) VerifC10shAtom {
	return VerifC10shAtom{int(a.Type), a.MkText, int(a.Quoting)}
}

// VerifC10shExprLens calls the real MkLexer.Expr at every suffix text[i:]
// (i = 0..len(text)) and returns the number of bytes it consumed, 0 when it
// returned nil. bad describes a breach of the advance contract, if any:
// nil but the lexer moved, non-nil but nothing consumed, or a rest that is
// not the remainder of the input.
func VerifC10shExprLens(text string) (lens []int, bad string, panicked string) {
	panicked = VerifPanic(func() {
		for i := 0; i <= len(text); i++ {
			in := text[i:]
			p := NewMkLexer(in, nil)
			e := p.Expr()
			rest := p.Rest()
			n := len(in) - len(rest)
			switch {
			case n < 0 || n > len(in) || in[n:] != rest:
				bad = sprintf("Expr on %q leaves the rest %q, which is not a suffix position of the input", in, rest)
				n = 0
			case e == nil && n != 0:
				bad = sprintf("Expr on %q returns nil but consumes %d bytes", in, n)
				n = 0
			case e != nil && n == 0:
				bad = sprintf("Expr on %q returns an expression but consumes nothing", in)
			}
			lens = append(lens, n)
		}
	})
	return
}

// VerifC10shAtomsFrom calls ShAtom repeatedly, starting in quoting state q and
// passing on each atom's quoting state, until it returns nil (the loop of
// ShAtoms, for an arbitrary start state).
func VerifC10shAtomsFrom(q int, text string) (atoms []VerifC10shAtom, rest string, panicked string) {
	var p *ShTokenizer
	panicked = VerifPanic(func() {
		p = NewShTokenizer(nil, text)
		quoting := ShQuoting(q)
		for {
			atom := p.ShAtom(quoting)
			if atom == nil {
				break
			}
			atoms = append(atoms, verifC10shAtom(atom))
			quoting = atom.Quoting
			if len(atoms) > 2*len(text)+2 {
				panic("verif: ShAtom returned more atoms than the input has bytes")
			}
		}
	})
	if panicked == "" {
		rest = p.Rest()
	}
	return
}

// VerifC10shAtoms is the real ShAtoms().
func VerifC10shAtoms(text string) (atoms []VerifC10shAtom, rest string, panicked string) {
	var p *ShTokenizer
	panicked = VerifPanic(func() {
		p = NewShTokenizer(nil, text)
		for _, atom := range p.ShAtoms() {
			atoms = append(atoms, verifC10shAtom(atom))
		}
	})
	if panicked == "" {
		rest = p.Rest()
	}
	return
}

// VerifC10shTokens calls ShToken until it returns nil; start is Rest() before
// the first call, each token carries Rest() after the call that returned it,
// rest is Rest() after the final call (the one that returned nil).
func VerifC10shTokens(text string) (tokens []VerifC10shToken, rest string, panicked string) {
	var p *ShTokenizer
	panicked = VerifPanic(func() {
		p = NewShTokenizer(nil, text)
		for {
			tok := p.ShToken()
			if tok == nil {
				break
			}
			t := VerifC10shToken{Text: tok.MkText, Rest: p.Rest()}
			for _, atom := range tok.Atoms {
				t.Atoms = append(t.Atoms, verifC10shAtom(atom))
			}
			tokens = append(tokens, t)
			if len(tokens) > 2*len(text)+2 {
				panic("verif: ShToken returned more tokens than the input has bytes")
			}
		}
	})
	if panicked == "" {
		rest = p.Rest()
	}
	return
}

// VerifC10shSplit is the real splitIntoShellTokens (shell.go), without a diagnostics sink.
func VerifC10shSplit(text string) (tokens []string, rest string, panicked string) {
	panicked = VerifPanic(func() {
		tokens, rest = splitIntoShellTokens(nil, text)
	})
	return
}
