//go:build verif

package pkglint

// C20: drives the real FileCache / Load / Autofix / SaveAutofixChanges with a
// script of operations on files in a scratch directory and reports, in the
// token format of oracle/c20.ml, what every operation showed.  Add-only; never
// part of /repo.

import (
	"bytes"
	"encoding/hex"
	"io"
	"os"
	"runtime"
	"sort"
	"strconv"
	"strings"
	"syscall"
)

type VerifC20Op struct {
	Kind      string // L X S M
	Key       int    // file
	Spelling  int    // 0: dir/f, 1: dir/sub/../f, 2: dir/./f
	Opts      int    // LoadOptions
	View      int
	Line      int
	Fix       string // A ReplaceAt, R ReplaceAfter, U InsertAbove, W InsertBelow, D Delete
	RawIndex  int
	TextIndex int
	Prefix    string
	From      string
	To        string
	Content   string
	Remove    bool
	Fail      []int // S: the files whose rewrite is made to fail (a <file>.pkglint.tmp exists already)
}

type VerifC20Obs struct {
	Token string
	// Observations about the property itself that the model has no field for:
	//   shared-line-object   a *Line returned by this Load was handed out by an earlier Load
	//   fix-leaked           a fix through one view changed what another view shows
	//   stale                this Load differs from a direct read of the file (compare Token)
	//   bookkeeping:<what>   table and mapping of the real cache are out of step after this operation
	//   once-state-leaked    a *Line returned by this Load already carries Line.once state (FirstTime was false)
	//   save-failed          SaveAutofixChanges reported "Cannot write" for a blocked file
	//   hit                  FileCache.hits went up during this Load (round 5)
	Flags []string
}

func verifC20Hex(s string) string {
	if s == "" {
		return "-"
	}
	return hex.EncodeToString([]byte(s))
}

func VerifC20Path(dir string, key, spelling int) CurrPath {
	base := "f" + strconv.Itoa(key)
	if key < 8 {
		base += ".mk"
	} else {
		base += ".txt"
	}
	if key >= 5 && key < 8 {
		// round 5: files 5, 6, 7 are sub/f0.mk, sub/f1.mk, sub/f2.mk: the same base
		// names as files 0, 1, 2 in another directory (different files, different keys)
		base = "sub/f" + strconv.Itoa(key-5) + ".mk"
	}
	switch spelling {
	case 1:
		return NewCurrPathString(dir + "/sub/../" + base)
	case 2:
		return NewCurrPathString(dir + "/./" + base)
	}
	return NewCurrPathString(dir + "/" + base)
}

func verifC20Lines(lines *Lines) string {
	if lines == nil {
		return "nil"
	}
	if len(lines.Lines) == 0 {
		return "e"
	}
	var sb strings.Builder
	for i, line := range lines.Lines {
		if i > 0 {
			sb.WriteByte(';')
		}
		sb.WriteString(strconv.Itoa(line.Location.lineno))
		sb.WriteByte(',')
		sb.WriteString(verifC20Hex(line.Text))
		sb.WriteByte(',')
		for j, raw := range line.raw {
			if j > 0 {
				sb.WriteByte('+')
			}
			sb.WriteString(verifC20Hex(raw.orignl))
		}
		if line.fix != nil {
			sb.WriteString(",1")
		} else {
			sb.WriteString(",0")
		}
	}
	return sb.String()
}

// what a view shows to its holder: Text and the current raw texts of every line
func verifC20Shown(lines *Lines) string {
	var sb strings.Builder
	for _, line := range lines.Lines {
		sb.WriteString(line.Text)
		sb.WriteByte(0)
		for i := range line.raw {
			sb.WriteString(line.RawText(i))
			sb.WriteByte(1)
		}
	}
	return sb.String()
}

// verifC20Fresh reads the file the way Load does when there is no cache.
func verifC20Fresh(filename CurrPath, options LoadOptions) *Lines {
	rawText, err := filename.ReadString()
	if err != nil {
		return nil
	}
	if rawText == "" && options&NotEmpty != 0 {
		return nil
	}
	return convertToLogicalLines(filename, rawText, options&Makefile != 0)
}

func verifC20Ino(p CurrPath) uint64 {
	st, err := os.Stat(p.String())
	if err != nil {
		return 0
	}
	if s, ok := st.Sys().(*syscall.Stat_t); ok {
		return s.Ino
	}
	return 0
}

// what the scratch directory is known to contain (key -> content)
var verifC20Known map[int]string
var verifC20KnownDir string
var verifC20ViewKeys []int

// verifC20Bookkeeping evaluates C20_table_mapping_bijection and
// C20_capacity_respected on the real cache; "" when they hold.
func verifC20Bookkeeping(capacity int) string {
	c := G.fileCache
	if len(c.table) > capacity {
		return "table-longer-than-capacity"
	}
	inTable := map[*fileCacheEntry]bool{}
	for _, e := range c.table {
		if inTable[e] {
			return "entry-twice-in-table"
		}
		inTable[e] = true
		if c.mapping[e.key] != e {
			return "table-entry-not-in-mapping"
		}
	}
	for k, e := range c.mapping {
		if !inTable[e] {
			return "mapping-entry-not-in-table"
		}
		if e.key != k {
			return "mapping-key-differs-from-entry-key"
		}
	}
	return ""
}

var verifC20Err bytes.Buffer

func verifC20Reset(capacity int, mode string) {
	verifC20Err.Reset()
	G = NewPkglint(io.Discard, &verifC20Err)
	G.fileCache = NewFileCache(capacity)
	switch mode {
	case "s":
		G.Logger.Opts.ShowAutofix = true
	case "a":
		G.Logger.Opts.Autofix = true
	}
}

// VerifFileCacheScript runs ops on a fresh G with a cache of the given capacity.
// files: initial content per key (a missing key = no such file). mode: d | s | a.
func VerifFileCacheScript(dir string, capacity int, mode string, files map[int]string, keys []int, ops []VerifC20Op) (result []VerifC20Obs) {
	// (re)write only what the previous script may have changed: file I/O dominates the cost
	if verifC20Known == nil || verifC20KnownDir != dir {
		_ = os.MkdirAll(dir+"/sub", 0o755)
		verifC20Known = map[int]string{}
		verifC20KnownDir = dir
	}
	for _, k := range keys {
		p := VerifC20Path(dir, k, 0)
		c, ok := files[k]
		known, isKnown := verifC20Known[k]
		if ok && isKnown && known == c {
			continue
		}
		if ok {
			_ = os.WriteFile(p.String(), []byte(c), 0o644)
			verifC20Known[k] = c
		} else {
			_ = os.Remove(p.String())
			delete(verifC20Known, k)
		}
	}
	defer func() {
		// forget the files that this script may have rewritten or removed
		for _, op := range ops {
			switch op.Kind {
			case "M":
				delete(verifC20Known, op.Key)
			case "S":
				if op.View < len(verifC20ViewKeys) {
					delete(verifC20Known, verifC20ViewKeys[op.View])
				}
			}
		}
		for k := range verifC20Known {
			found := false
			for _, k2 := range keys {
				found = found || k == k2
			}
			if !found {
				delete(verifC20Known, k)
			}
		}
	}()
	verifC20Reset(capacity, mode)

	var views []*Lines
	var viewKey []int
	verifC20ViewKeys = nil
	pending := map[int]bool{}
	handedOut := map[*Line]bool{}

	stop := func(r interface{}) string {
		switch r.(type) {
		case runtime.Error:
			return "!index"
		case pkglintFatal:
			return "!fatal"
		}
		return "!assert"
	}

	for _, op := range ops {
		var obs VerifC20Obs
		stopped := ""
		func() {
			defer func() {
				if r := recover(); r != nil {
					stopped = stop(r)
				}
			}()
			switch op.Kind {
			case "L":
				filename := VerifC20Path(dir, op.Key, op.Spelling)
				options := LoadOptions(op.Opts)
				guard := "1"
				for v := range pending {
					if viewKey[v] == op.Key {
						guard = "0"
					}
				}
				fresh := verifC20Lines(verifC20Fresh(filename, options))
				hitsBefore := G.fileCache.hits
				lines := Load(filename, options)
				if G.fileCache.hits != hitsBefore {
					// round 5: FileCache.hits went up: this Load was served by the cache
					obs.Flags = append(obs.Flags, "hit")
				}
				got := verifC20Lines(lines)
				obs.Token = "L" + guard + ":" + got + ":" + fresh
				if got != fresh {
					obs.Flags = append(obs.Flags, "stale")
				}
				if lines != nil {
					for _, line := range lines.Lines {
						if handedOut[line] {
							obs.Flags = append(obs.Flags, "shared-line-object")
							break
						}
					}
					for _, line := range lines.Lines {
						handedOut[line] = true
					}
					// mark every handed-out Line the way a check does (Line.once):
					// a Line that a Load returns must not carry such a mark yet
					for _, line := range lines.Lines {
						if !line.once.FirstTime("verif-c20-mark") {
							obs.Flags = append(obs.Flags, "once-state-leaked")
							break
						}
					}
					views = append(views, lines)
					viewKey = append(viewKey, op.Key)
					verifC20ViewKeys = viewKey
				}

			case "X":
				if op.View >= len(views) || op.Line >= len(views[op.View].Lines) {
					obs.Token = "B"
					return
				}
				before := make([]string, len(views))
				for v, ls := range views {
					if v != op.View {
						before[v] = verifC20Shown(ls)
					}
				}
				line := views[op.View].Lines[op.Line]
				pending[op.View] = true
				fix := line.Autofix()
				fix.Notef("Verification fix.")
				switch op.Fix {
				case "A":
					fix.ReplaceAt(op.RawIndex, op.TextIndex, op.From, op.To)
				case "R":
					fix.ReplaceAfter(op.Prefix, op.From, op.To)
				case "U":
					fix.InsertAbove(op.To)
				case "W":
					fix.InsertBelow(op.To)
				case "D":
					fix.Delete()
				}
				acted := "0"
				if len(fix.actions) > 0 {
					acted = "1"
				}
				fix.Apply()
				obs.Token = "X:" + acted
				for v, ls := range views {
					if v != op.View && before[v] != verifC20Shown(ls) {
						obs.Flags = append(obs.Flags, "fix-leaked")
						break
					}
				}

			case "S":
				if op.View >= len(views) {
					obs.Token = "B"
					return
				}
				inos := map[int]uint64{}
				for _, k := range keys {
					inos[k] = verifC20Ino(VerifC20Path(dir, k, 0))
				}
				var blockers []string
				for _, k := range op.Fail {
					tmp := VerifC20Path(dir, k, 0).String() + ".pkglint.tmp"
					if err := os.WriteFile(tmp, []byte("left over\n"), 0o644); err == nil {
						blockers = append(blockers, tmp)
					}
				}
				verifC20Err.Reset()
				func() {
					defer func() {
						for _, tmp := range blockers {
							_ = os.Remove(tmp)
						}
					}()
					SaveAutofixChanges(views[op.View])
				}()
				if strings.Contains(verifC20Err.String(), "Cannot write") {
					obs.Flags = append(obs.Flags, "save-failed")
				}
				delete(pending, op.View)
				var written []string
				sorted := append([]int(nil), keys...)
				sort.Ints(sorted)
				for _, k := range sorted {
					p := VerifC20Path(dir, k, 0)
					if ino := verifC20Ino(p); ino != inos[k] {
						c, _ := os.ReadFile(p.String())
						written = append(written, strconv.Itoa(k)+"="+verifC20Hex(string(c)))
					}
				}
				obs.Token = "S:" + strings.Join(written, ";")

			case "M":
				p := VerifC20Path(dir, op.Key, 0)
				if op.Remove {
					_ = os.Remove(p.String())
				} else {
					_ = os.WriteFile(p.String(), []byte(op.Content), 0o644)
				}
				G.fileCache.Evict(p)
				obs.Token = "M"
			}
		}()
		if stopped != "" {
			result = append(result, VerifC20Obs{Token: stopped})
			return
		}
		if bad := verifC20Bookkeeping(capacity); bad != "" {
			obs.Flags = append(obs.Flags, "bookkeeping:"+bad)
		}
		result = append(result, obs)
	}
	return
}

// VerifC20LoadMkTwice loads the makefile twice with LoadMk in the given mode,
// without any fix made by the caller, and reports the second Load next to a
// direct read (token format as above), or the panic.
func VerifC20LoadMkTwice(dir string, content string, mode string, opts int) (second, fresh, panicked string) {
	_ = os.MkdirAll(dir, 0o755)
	p := VerifC20Path(dir, 0, 0)
	_ = os.WriteFile(p.String(), []byte(content), 0o644)
	verifC20Reset(200, mode)
	panicked = VerifPanic(func() {
		first := LoadMk(p, nil, LoadOptions(opts))
		_ = first
		options := LoadOptions(opts) | Makefile
		fresh = verifC20Lines(verifC20Fresh(p, options))
		second = verifC20Lines(Load(p, options))
		_ = LoadMk(p, nil, LoadOptions(opts))
	})
	return
}

// VerifC20MainThenLoad runs pkglint's Main in this process (cwd = dir) and then,
// at that point of the run, loads every file that is still in the file cache,
// with the options it was cached with, next to a direct read of the file.
// It returns one line per file whose Load differs from the disk.
func VerifC20MainThenLoad(dir string, args []string) (stale []string, cached int, panicked string) {
	old, err := os.Getwd()
	if err != nil {
		return nil, 0, "panic:getwd"
	}
	if err := os.Chdir(dir); err != nil {
		return nil, 0, "panic:chdir"
	}
	defer func() { _ = os.Chdir(old) }()
	G = NewPkglint(io.Discard, io.Discard)
	panicked = VerifPanic(func() {
		G.Main(io.Discard, io.Discard, append([]string{"pkglint"}, args...))
	})
	if panicked != "" {
		return
	}
	type item struct {
		filename CurrPath
		options  LoadOptions
	}
	var items []item
	for _, e := range G.fileCache.table {
		items = append(items, item{e.lines.Filename, e.options})
	}
	cached = len(items)
	panicked = VerifPanic(func() {
		for _, it := range items {
			fresh := verifC20Lines(verifC20Fresh(it.filename, it.options))
			got := verifC20Lines(Load(it.filename, it.options))
			if got != fresh {
				stale = append(stale, it.filename.String()+" options "+strconv.Itoa(int(it.options))+": Load "+got+", file "+fresh)
			}
		}
	})
	return
}
