//go:build verif

package pkglint

import (
	"bytes"
	"os"
	"path/filepath"
	"sync"
)

// C03/C02: a driver that runs a script of fix transactions through the real
// Line.Autofix() / Autofix.* / Apply / SaveAutofixChanges / plistLineSorter
// on a file in a temporary directory.  Add-only; plain data in and out.

type VerifC03Op struct {
	Kind      string // replaceafter replaceat above below delete custom-sort custom-chmod
	Prefix    string
	From, To  string
	RawIndex  int
	TextIndex int
}

type VerifC03Event struct {
	Kind string // txn save sort chmod
	Line int    // index of the logical line (txn)
	Diag string // diagnostic format (txn); "" = fix.Silent()
	Ops  []VerifC03Op
}

type VerifC03Line struct {
	Lineno int
	Raws   []string
	Text   string
}

type VerifC03Result struct {
	Lines      []VerifC03Line // as loaded
	Stdout     string
	Stderr     string
	Disk       string // content of the file afterwards
	Mode       uint32
	Entries    []string        // directory entries afterwards
	Final      []VerifC03Line // RawText of every raw line and Text afterwards
	Panic      string
	EventsDone int
}

var verifC03Mu sync.Mutex

// VerifAutofixScript loads fileContent (as a makefile with continuation lines,
// or as a PLIST) and runs the events.  basename is "Makefile" or "PLIST".
func VerifAutofixScript(autofix, showAutofix bool, only []string, basename string, mode uint32, fileContent string, events []VerifC03Event) (res VerifC03Result) {
	verifC03Mu.Lock()
	defer verifC03Mu.Unlock()

	dir, err := os.MkdirTemp("/var/tmp", "verif-fix-")
	if err != nil {
		res.Panic = "setup:" + err.Error()
		return
	}
	defer os.RemoveAll(dir)
	path := filepath.Join(dir, basename)
	if err := os.WriteFile(path, []byte(fileContent), 0o644); err != nil {
		res.Panic = "setup:" + err.Error()
		return
	}
	_ = os.Chmod(path, os.FileMode(mode))

	var stdout, stderr bytes.Buffer
	saved := G
	defer func() { G = saved }()
	G = NewPkglint(&stdout, &stderr)
	G.Logger.Opts.Autofix = autofix
	G.Logger.Opts.ShowAutofix = showAutofix
	G.Logger.Opts.Only = only

	filename := NewCurrPathString(path)
	var lines *Lines
	var plines []*PlistLine

	res.Panic = VerifPanic(func() {
		opts := LoadOptions(0)
		if basename != "PLIST" {
			opts = Makefile
		}
		lines = Load(filename, opts)
		if lines == nil {
			lines = NewLines(filename, nil)
		}
		for _, l := range lines.Lines {
			info := VerifC03Line{Lineno: l.Location.lineno, Text: l.Text}
			for _, r := range l.raw {
				info.Raws = append(info.Raws, r.orignl)
			}
			res.Lines = append(res.Lines, info)
		}
		if basename == "PLIST" {
			plines = NewPlistChecker(nil).newLines(lines)
		}
		stdout.Reset() // "File must end with a newline." is not part of the script

		for _, ev := range events {
			switch ev.Kind {
			case "txn":
				if ev.Line < 0 || ev.Line >= len(lines.Lines) {
					break
				}
				line := lines.Lines[ev.Line]
				fix := line.Autofix()
				if ev.Diag == "" {
					fix.Silent()
				} else {
					fix.Notef(ev.Diag)
				}
				for _, op := range ev.Ops {
					switch op.Kind {
					case "replaceafter":
						if op.Prefix == "" {
							fix.Replace(op.From, op.To)
						} else {
							fix.ReplaceAfter(op.Prefix, op.From, op.To)
						}
					case "replaceat":
						fix.ReplaceAt(op.RawIndex, op.TextIndex, op.From, op.To)
					case "above":
						fix.InsertAbove(op.From)
					case "below":
						fix.InsertBelow(op.From)
					case "delete":
						fix.Delete()
					case "custom-sort":
						ri := op.RawIndex
						fix.Custom(func(showAutofix, autofix bool) { fix.Describef(ri, "Sorting the whole file.") })
					case "custom-chmod":
						ri := op.RawIndex
						fix.Custom(func(showAutofix, autofix bool) { fix.Describef(ri, "Clearing executable bits") })
					}
				}
				fix.Apply()
			case "save":
				SaveAutofixChanges(lines)
			case "sort":
				if plines != nil {
					sorter := newPlistLineSorter(plines)
					sorter.Sort()
					if !sorter.autofixed {
						SaveAutofixChanges(lines)
					}
				}
			case "chmod":
				if st, err := os.Lstat(path); err == nil {
					G.checkExecutable(filename, st.Mode())
				}
			}
			res.EventsDone++
		}
	})

	res.Stdout = stdout.String()
	res.Stderr = stderr.String()
	if b, err := os.ReadFile(path); err == nil {
		res.Disk = string(b)
	} else {
		res.Disk = "<unreadable>"
	}
	if st, err := os.Lstat(path); err == nil {
		res.Mode = uint32(st.Mode().Perm())
	}
	if ents, err := os.ReadDir(dir); err == nil {
		for _, e := range ents {
			res.Entries = append(res.Entries, e.Name())
		}
	}
	if lines != nil {
		_ = VerifPanic(func() {
			for _, l := range lines.Lines {
				info := VerifC03Line{Lineno: l.Location.lineno, Text: l.Text}
				for i := range l.raw {
					info.Raws = append(info.Raws, l.RawText(i))
				}
				res.Final = append(res.Final, info)
			}
		})
	}
	return
}
