//go:build verif

package pkglint

// C01, second part: thin drivers around Scope (scope.go) and resolveExprs
// (pkglint.go). Add-only; never copied into /repo.

type VerifScopeOp struct {
	Kind  byte   // 'D' Define, 'F' Fallback, 'U' Use
	Name  string // variable name handed to Define/Fallback/Use
	Line  string // D, U: text of the makefile line
	Value string // F: the fallback value
	Load  bool   // U: EctxLoadTime
}

// what Scope looks at in a line, as seen by the real parser
type VerifLineInfo struct {
	Kind  int // 0 IsVarassign, 1 IsCommentedVarassign, 2 neither
	Op    int // MkOperator: 0 "=", 1 "!=", 2 ":=", 3 "+=", 4 "?="
	Value string
}

type VerifScopeObs struct {
	Mentioned, First, Last, Commented, FirstUse        int // line numbers, 0 = nil
	Defined, DefinedSimilar, Used, UsedSimilar, AtLoad bool
	Value                                              string
	Found, Indeterminate                               bool
}

func verifLineno(mkline *MkLine) int {
	if mkline == nil {
		return 0
	}
	return mkline.Location.lineno
}

// verifScopeLines parses one makefile line per operation (a filler comment for Fallback).
func verifScopeLines(basename string, ops []VerifScopeOp) ([]*MkLine, []VerifLineInfo) {
	text := ""
	for _, op := range ops {
		if op.Kind == 'F' {
			text += "# fallback\n"
		} else {
			text += op.Line + "\n"
		}
	}
	filename := NewCurrPathString("/verif-scope").JoinNoClean(NewRelPathString(basename))
	mklines := NewMkLines(convertToLogicalLines(filename, text, true), nil, nil)
	assert(len(mklines.mklines) == len(ops))
	infos := make([]VerifLineInfo, len(ops))
	for i, mkline := range mklines.mklines {
		info := VerifLineInfo{Kind: 2}
		if mkline.IsVarassign() {
			info.Kind = 0
		} else if mkline.IsCommentedVarassign() {
			info.Kind = 1
		}
		if mkline.IsVarassignMaybeCommented() {
			info.Op = int(mkline.Op())
			info.Value = mkline.Value()
		}
		infos[i] = info
	}
	return mklines.mklines, infos
}

func verifScopeApply(s *Scope, op VerifScopeOp, mkline *MkLine) {
	switch op.Kind {
	case 'D':
		s.Define(op.Name, mkline)
	case 'F':
		s.Fallback(op.Name, op.Value)
	case 'U':
		time := EctxRunTime
		if op.Load {
			time = EctxLoadTime
		}
		s.Use(op.Name, mkline, time)
	}
}

func verifScopeObserve(s *Scope, name string) VerifScopeObs {
	var o VerifScopeObs
	o.Mentioned = verifLineno(s.Mentioned(name))
	o.Defined = s.IsDefined(name)
	o.DefinedSimilar = s.IsDefinedSimilar(name)
	o.Used = s.IsUsed(name)
	o.UsedSimilar = s.IsUsedSimilar(name)
	o.AtLoad = s.IsUsedAtLoadTime(name)
	o.First = verifLineno(s.FirstDefinition(name))
	o.Last = verifLineno(s.LastDefinition(name))
	o.Commented = verifLineno(s.Commented(name))
	o.FirstUse = verifLineno(s.FirstUse(name))
	o.Value, o.Found, o.Indeterminate = s.LastValueFound(name)
	if s.LastValue(name) != o.Value {
		o.Value = "LastValue differs from LastValueFound: " + s.LastValue(name) + " / " + o.Value
	}
	return o
}

// VerifScopeScript applies the operations to a fresh Scope and observes the
// given names after every operation.
func VerifScopeScript(ops []VerifScopeOp, names []string) (infos []VerifLineInfo, trace [][]VerifScopeObs, panicked string) {
	panicked = VerifPanic(func() {
		var mklines []*MkLine
		mklines, infos = verifScopeLines("scope.mk", ops)
		s := NewScope()
		for i, op := range ops {
			verifScopeApply(&s, op, mklines[i])
			obs := make([]VerifScopeObs, len(names))
			for j, name := range names {
				obs[j] = verifScopeObserve(&s, name)
			}
			trace = append(trace, obs)
		}
	})
	return
}

// VerifResolveExprs fills mklines.allVars and pkg.vars by the given operations
// and calls the real resolveExprs(text, mklines, pkg).
// mode 0: mklines and pkg both given; 1: mklines only (mklines.pkg == nil);
// 2: pkg only (mklines == nil); 3: pkg reached through mklines.pkg.
func VerifResolveExprs(allOps, pkgOps []VerifScopeOp, mode int, text string) (allInfos, pkgInfos []VerifLineInfo, hasExpr bool, result string, panicked string) {
	panicked = VerifPanic(func() {
		var allLines, pkgLines []*MkLine
		allLines, allInfos = verifScopeLines("all.mk", allOps)
		pkgLines, pkgInfos = verifScopeLines("pkg.mk", pkgOps)
		pkg := &Package{vars: NewScope()}
		for i, op := range pkgOps {
			verifScopeApply(&pkg.vars, op, pkgLines[i])
		}
		filename := NewCurrPathString("/verif-scope/resolve.mk")
		mklines := NewMkLines(convertToLogicalLines(filename, "# resolve\n", true), nil, nil)
		for i, op := range allOps {
			verifScopeApply(&mklines.allVars, op, allLines[i])
		}
		hasExpr = containsExpr(text)
		switch mode {
		case 0:
			result = resolveExprs(text, mklines, pkg)
		case 1:
			result = resolveExprs(text, mklines, nil)
		case 2:
			result = resolveExprs(text, nil, pkg)
		default:
			mklines.pkg = pkg
			result = resolveExprs(text, mklines, nil)
		}
	})
	return
}

// VerifScopeDefineAll builds the scope `other` by otherOps and the target scope by ops,
// calls target.DefineAll(&other) and observes the given names in the target.
// The lines of otherOps are numbered first, then those of ops.
func VerifScopeDefineAll(otherOps, ops []VerifScopeOp, names []string) (infos []VerifLineInfo, obs []VerifScopeObs, panicked string) {
	panicked = VerifPanic(func() {
		all := append(append([]VerifScopeOp(nil), otherOps...), ops...)
		var mklines []*MkLine
		mklines, infos = verifScopeLines("defineall.mk", all)
		other := NewScope()
		for i, op := range otherOps {
			verifScopeApply(&other, op, mklines[i])
		}
		target := NewScope()
		for i, op := range ops {
			verifScopeApply(&target, op, mklines[len(otherOps)+i])
		}
		target.DefineAll(&other)
		for _, name := range names {
			obs = append(obs, verifScopeObserve(&target, name))
		}
	})
	return
}
