//go:build verif

package pkglint

// C01: thin drivers around the Indentation machine (mkline.go) with its
// callers in mklinechecker.go, and around SeparatorWriter (logging.go).
// Add-only; never copied into /repo.

import (
	"bytes"
	"strings"
)

type VerifIndentLevel struct {
	Line     int // first line number of the opening .if/.for
	Depth    int
	ArgsLine int // first line number of the line that set args/argsLine
	Guard    bool
	Vars     []string
	Files    []string
}

type VerifIndentStep struct {
	Directive string // "" when the line is not a directive line
	Expected  int    // Depth(directive) as handed to checkDirectiveIndentation
	Unmatched bool   // checkDirectiveEnd reported "Unmatched ."
	Levels    []VerifIndentLevel
}

type VerifIndentResult struct {
	Steps     []VerifIndentStep
	GuardLine int // line number of MkLines.guardLine, 0 = none
	Closed    int // number of "must be closed" errors of CheckFinish
	LeftOpen  int // levels left after CheckFinish
	Panic     string
	PanicStep int // index of the line during which the panic happened; len(lines) = CheckFinish
}

var verifC01Root = "\x00unset"

// VerifIndentSetup prepares G once per process. root = "" means "outside a
// pkgsrc tree" (G.Pkgsrc == nil, as in `pkglint some/file.mk`); otherwise the
// infrastructure is loaded from root exactly like prepareMainLoop does.
func VerifIndentSetup(root string) (panicked string) {
	return VerifPanic(func() {
		var out, err bytes.Buffer
		G = NewPkglint(&out, &err)
		if root == "" {
			G.Project = NewNetBSDProject()
		} else {
			G.Pkgsrc = NewPkgsrc(NewCurrPathString(root))
			G.Pkgsrc.LoadInfrastructure()
			G.Project = G.Pkgsrc
		}
		G.WarnExtra, G.WarnPerm, G.WarnQuoting = true, true, true
		verifC01Root = root
	})
}

// VerifIndentScript parses text as the makefile <dir>/<basename> and replays
// the loop of MkLines.ForEachEnd (TrackBefore, action, TrackAfter, and at the
// end CheckFinish) with the action reduced to MkLineChecker.checkDirective,
// which is what MkLineChecker.Check calls for directive lines.
func VerifIndentScript(dir, basename, text string) (res VerifIndentResult) {
	var out, errb bytes.Buffer
	G.Logger = Logger{}
	G.Logger.out = NewSeparatorWriter(&out)
	G.Logger.err = NewSeparatorWriter(&errb)

	filename := NewCurrPathString(dir).JoinNoClean(NewRelPathString(basename))
	var mklines *MkLines
	res.PanicStep = -1
	if p := VerifPanic(func() {
		mklines = NewMkLines(convertToLogicalLines(filename, text, true), nil, nil)
	}); p != "" {
		res.Panic = "parse:" + p
		return
	}

	if mklines.guardLine != nil {
		res.GuardLine = mklines.guardLine.Location.lineno
	}
	ind := NewIndentation(mklines.guardLine)
	mklines.indentation = ind
	forVars := make(map[string]bool)

	snapshot := func() []VerifIndentLevel {
		var ls []VerifIndentLevel
		for _, l := range ind.levels {
			v := VerifIndentLevel{Line: l.mkline.Location.lineno, Depth: l.depth, Guard: l.guard}
			if l.argsLine != nil {
				v.ArgsLine = l.argsLine.Location.lineno
			}
			v.Vars = append(v.Vars, l.conditionalVars...)
			for _, f := range l.checkedFiles {
				v.Files = append(v.Files, f.String())
			}
			ls = append(ls, v)
		}
		return ls
	}

	for i, mkline := range mklines.mklines {
		var step VerifIndentStep
		p := VerifPanic(func() {
			ind.TrackBefore(mkline)
			if mkline.IsDirective() {
				step.Directive = mkline.Directive()
				step.Expected = ind.Depth(step.Directive)
				before := out.Len()
				MkLineChecker{mklines, mkline}.checkDirective(forVars, ind)
				G.Logger.out.Flush()
				step.Unmatched = strings.Contains(out.String()[before:], "Unmatched .")
			}
			ind.TrackAfter(mkline)
		})
		if p != "" {
			res.Panic = p
			res.PanicStep = i
			return
		}
		step.Levels = snapshot()
		res.Steps = append(res.Steps, step)
	}

	before := out.Len()
	if p := VerifPanic(func() { ind.CheckFinish(filename) }); p != "" {
		res.Panic = p
		res.PanicStep = len(mklines.mklines)
		return
	}
	G.Logger.out.Flush()
	res.Closed = strings.Count(out.String()[before:], "must be closed.")
	res.LeftOpen = len(ind.levels)
	mklines.indentation = nil
	return
}

// ---------- SeparatorWriter ----------

type VerifSepEvent struct {
	Kind byte // 'W' Write, 'L' WriteLine, 'S' Separate, 'F' Flush
	Text string
}

type VerifSepResult struct {
	Out   string // what reached the io.Writer
	Line  string // the pending buffer
	State int
	Panic string
	At    int // index of the event that panicked
}

func VerifSepWriterScript(events []VerifSepEvent) (res VerifSepResult) {
	var out bytes.Buffer
	wr := NewSeparatorWriter(&out)
	res.At = -1
	for i, ev := range events {
		p := VerifPanic(func() {
			switch ev.Kind {
			case 'W':
				wr.Write(ev.Text)
			case 'L':
				wr.WriteLine(ev.Text)
			case 'S':
				wr.Separate()
			case 'F':
				wr.Flush()
			}
		})
		if p != "" {
			res.Panic = p
			res.At = i
			break
		}
	}
	res.Out = out.String()
	res.Line = wr.line.String()
	res.State = int(wr.state)
	return
}
