//go:build verif

package pkglint

// C19: read-only drivers around the path functions of path.go, Pkglint.Abs,
// Pkgsrc.Relpath and Line.Rel. Nothing here touches the file system.

// VerifPathOpsResult holds what the unary path functions return for one path.
type VerifPathOpsResult struct {
	Parts     []string
	Dir       string
	IsAbs     bool
	Clean     string
	CleanDot  string
	CleanPath string
	Panic     string
}

// VerifPathOps runs the unary path functions on p.
func VerifPathOps(p string) (r VerifPathOpsResult) {
	r.Panic = VerifPanic(func() {
		path := NewPath(p)
		r.Parts = path.Parts()
		r.Dir = path.Dir().String()
		r.IsAbs = path.IsAbs()
		r.Clean = path.Clean().String()
		r.CleanDot = path.CleanDot().String()
		r.CleanPath = path.CleanPath().String()
	})
	return
}

// VerifPathPreds returns HasPrefixPath, ContainsPath, HasSuffixPath of (p, q)
// as bits 0, 1, 2; bit 6 is set if one of them panicked.
func VerifPathPreds(p, q string) (bits int) {
	if VerifPanic(func() {
		path, other := NewPath(p), NewPath(q)
		if path.HasPrefixPath(other) {
			bits |= 1
		}
		if path.ContainsPath(other) {
			bits |= 2
		}
		if path.HasSuffixPath(other) {
			bits |= 4
		}
	}) != "" {
		bits |= 64
	}
	return
}

// VerifPathRel runs Path.Rel; the result is "ok:<path>" or "panic".
func VerifPathRel(p, other string) (result string) {
	if VerifPanic(func() { result = "ok:" + NewPath(p).Rel(NewPath(other)).String() }) != "" {
		return "panic"
	}
	return
}

// VerifSetCwd sets the working directory that Pkglint.Abs uses (G.cwd), without
// any system call. Relpath reads nothing else of G.
func VerifSetCwd(cwd string) { G.cwd = NewCurrPathString(cwd) }

// VerifRelpath runs Pkgsrc.Relpath(from, to) with G.cwd = cwd and the pkgsrc
// root at topdir; the result is "ok:<path>" or "panic". Only the topdir field
// of the Pkgsrc is set, Relpath reads nothing else.
// Calls with the same cwd may run concurrently after VerifSetCwd(cwd).
func VerifRelpath(cwd, topdir, from, to string) (result string) {
	if G.cwd.String() != cwd {
		VerifSetCwd(cwd)
	}
	src := &Pkgsrc{topdir: NewCurrPathString(topdir)}
	if VerifPanic(func() {
		result = "ok:" + src.Relpath(NewCurrPathString(from), NewCurrPathString(to)).String()
	}) != "" {
		return "panic"
	}
	return
}

// VerifLineRel runs Line.Rel(other) for a line of the file filename (line.go);
// it needs G.Pkgsrc and is therefore not safe for concurrent use.
// It returns the directory Line.Rel starts from and "ok:<path>" or "panic".
func VerifLineRel(cwd, topdir, filename, other string) (dir string, result string) {
	VerifSetCwd(cwd)
	saved := G.Pkgsrc
	G.Pkgsrc = &Pkgsrc{topdir: NewCurrPathString(topdir)}
	defer func() { G.Pkgsrc = saved }()
	if VerifPanic(func() {
		// not NewLineWhole: that also computes filename.Base(), which is not part of Line.Rel
		line := &Line{Location: NewLocation(NewCurrPathString(filename), 0)}
		dir = line.Filename().Dir().String()
		result = "ok:" + line.Rel(NewCurrPathString(other)).String()
	}) != "" {
		return dir, "panic"
	}
	return
}
