//go:build verif

package pkglint

import (
	"bytes"
	"os"
	"path/filepath"
	"sync"
)

// C16: drivers that run ONE real fixer on ONE file, several --autofix passes
// in a row, each pass on a fresh Pkglint that loads the file from disk again.
// Add-only; plain data in and out.

type VerifC16Pass struct {
	Stdout string // what the pass printed (with -F: the AUTOFIX lines)
	After  string // content of the file after the pass
	Panic  string
}

var verifC16Mu sync.Mutex

func verifC16Dir() string {
	if st, err := os.Stat("/dev/shm"); err == nil && st.IsDir() {
		return "/dev/shm"
	}
	return "/var/tmp"
}

func verifC16Run(basename, content string, passes int, check func(path CurrPath)) (res []VerifC16Pass) {
	verifC16Mu.Lock()
	defer verifC16Mu.Unlock()

	dir, err := os.MkdirTemp(verifC16Dir(), "verif-c16-")
	if err != nil {
		return []VerifC16Pass{{Panic: "setup:" + err.Error()}}
	}
	defer os.RemoveAll(dir)
	path := filepath.Join(dir, basename)
	if err := os.WriteFile(path, []byte(content), 0o644); err != nil {
		return []VerifC16Pass{{Panic: "setup:" + err.Error()}}
	}
	saved := G
	defer func() { G = saved }()
	for p := 0; p < passes; p++ {
		var stdout, stderr bytes.Buffer
		G = NewPkglint(&stdout, &stderr)
		G.Logger.Opts.Autofix = true
		var pass VerifC16Pass
		pass.Panic = VerifPanic(func() { check(NewCurrPathString(path)) })
		b, err := os.ReadFile(path)
		if err != nil {
			pass.Panic += "|read:" + err.Error()
		}
		pass.After = string(b)
		pass.Stdout = stdout.String()
		res = append(res, pass)
		if pass.Panic != "" {
			break
		}
	}
	return res
}

// VerifC16UsedBy: MkLines.CheckUsedBy on a Makefile.common with the given content.
func VerifC16UsedBy(content, relativeName string, passes int) []VerifC16Pass {
	return verifC16Run("Makefile.common", content, passes, func(path CurrPath) {
		mklines := LoadMk(path, nil, 0)
		if mklines == nil {
			return
		}
		mklines.CheckUsedBy(NewPkgsrcPath(NewPath(relativeName)))
	})
}

// VerifC16Plist: CheckLinesPlist (no package) on a PLIST with the given content.
func VerifC16Plist(content string, passes int) []VerifC16Pass {
	return verifC16Run("PLIST", content, passes, func(path CurrPath) {
		lines := Load(path, 0)
		if lines == nil {
			return
		}
		CheckLinesPlist(nil, lines)
	})
}

// VerifC16CvsID: Lines.CheckCvsID(0, …) with the arguments of its call sites
// (kind "plain": distinfo.go, patches.go; "mk": mklines.go; "plist": plist.go),
// then SaveAutofixChanges.
func VerifC16CvsID(kind, content string, passes int) []VerifC16Pass {
	return verifC16Run("file", content, passes, func(path CurrPath) {
		lines := Load(path, 0)
		if lines == nil {
			return
		}
		switch kind {
		case "plain":
			lines.CheckCvsID(0, ``, "")
		case "mk":
			lines.CheckCvsID(0, `#[\t ]+`, "# ")
		case "plist":
			lines.CheckCvsID(0, `@comment `, "@comment ")
		}
		SaveAutofixChanges(lines)
	})
}
