//go:build verif

package pkglint

import (
	"bytes"
	"os"
)

// C09: loading. Read-only view of what convertToLogicalLines builds, and a
// driver for the write-back half of SaveAutofixChanges.

// VerifLine is what the property talks about: the reported line number, the
// text and the physical lines (RawLine.orignl) of one logical line.
type VerifLine struct {
	Lineno int
	Text   string
	Raws   []string
}

func verifLines(lines *Lines) []VerifLine {
	out := make([]VerifLine, 0, len(lines.Lines))
	for _, line := range lines.Lines {
		vl := VerifLine{Lineno: line.Location.lineno, Text: line.Text}
		for _, raw := range line.raw {
			vl.Raws = append(vl.Raws, raw.orignl)
		}
		out = append(out, vl)
	}
	return out
}

// VerifConvertToLogicalLines runs convertToLogicalLines(filename, rawText, mk)
// with a fresh Logger. eofError reports whether an error was logged (the only
// one this function can log is "File must end with a newline."; the wording is
// not looked at). Not safe for concurrent use (G is global).
func VerifConvertToLogicalLines(rawText string, mk bool) (lines []VerifLine, eofError bool, panicked string) {
	var out bytes.Buffer
	G.Logger = Logger{out: NewSeparatorWriter(&out), err: NewSeparatorWriter(&out)}
	panicked = VerifPanic(func() {
		res := convertToLogicalLines(NewCurrPathString("verif.mk"), rawText, mk)
		lines = verifLines(res)
	})
	eofError = G.Logger.errors > 0
	return
}

// VerifLoadLines writes rawText to path (a file in an existing scratch directory
// whose name does not end in .mk, so the file cache stays out of the way) and
// loads it with Load(path, 0) or Load(path, Makefile): the path every file of a
// pkglint run takes. eofError as in VerifConvertToLogicalLines.
func VerifLoadLines(path string, rawText string, mk bool) (lines []VerifLine, eofError bool, panicked string) {
	var out bytes.Buffer
	G.Logger = Logger{out: NewSeparatorWriter(&out), err: NewSeparatorWriter(&out)}
	panicked = VerifPanic(func() {
		if err := os.WriteFile(path, []byte(rawText), 0o644); err != nil {
			panic(err)
		}
		var options LoadOptions
		if mk {
			options = Makefile
		}
		res := Load(NewCurrPathString(path), options)
		if res == nil {
			panic("Load returned nil")
		}
		lines = verifLines(res)
	})
	eofError = G.Logger.errors > 0
	return
}

// VerifFixOp is one edit made through the Autofix API on the logical line with
// the given 0-based index: "touch" (line.Autofix() only, nothing modified),
// "replace" (Replace(From, To)), "replaceafter" (ReplaceAfter(Prefix, From, To)), "above" (InsertAbove(To)), "below"
// (InsertBelow(To)), "delete" (Delete()).
type VerifFixOp struct {
	Line     int
	Kind     string
	From, To string
	Prefix   string // "replaceafter": ReplaceAfter(Prefix, From, To)
}

// VerifFixState is what SaveAutofixChanges reads from a line: whether it has a
// fix, and the fix's fields.
type VerifFixState struct {
	HasFix              bool
	Modified            bool
	Above, Texts, Below []string
}

// VerifSaveScript loads rawText as path (a file inside an existing scratch
// directory), performs ops through the real Autofix API in --autofix mode,
// calls SaveAutofixChanges and reports the per-line fix state it worked from,
// whether the file was written, and the file's bytes afterwards.
// The file is created with rawText first, so "not written" is observable.
func VerifSaveScript(path string, rawText string, mk bool, ops []VerifFixOp) (lines []VerifLine, fixes []VerifFixState, saved bool, after string, panicked string) {
	var out bytes.Buffer
	G = NewPkglint(&out, &out)
	G.Logger.Opts.Autofix = true
	panicked = VerifPanic(func() {
		if err := os.WriteFile(path, []byte(rawText), 0o644); err != nil {
			panic(err)
		}
		res := convertToLogicalLines(NewCurrPathString(path), rawText, mk)
		lines = verifLines(res)
		for _, op := range ops {
			if op.Line < 0 || op.Line >= len(res.Lines) {
				continue
			}
			line := res.Lines[op.Line]
			fix := line.Autofix()
			switch op.Kind {
			case "touch":
				continue
			case "replace":
				fix.Warnf("Verif replace.")
				fix.Replace(op.From, op.To)
			case "replaceafter":
				fix.Warnf("Verif replace after.")
				fix.ReplaceAfter(op.Prefix, op.From, op.To)
			case "above":
				fix.Warnf("Verif above.")
				fix.InsertAbove(op.To)
			case "below":
				fix.Warnf("Verif below.")
				fix.InsertBelow(op.To)
			case "delete":
				fix.Warnf("Verif delete.")
				fix.Delete()
			}
			fix.Apply()
		}
		for _, line := range res.Lines {
			st := VerifFixState{}
			if fix := line.fix; fix != nil {
				st.HasFix = true
				st.Modified = fix.modified
				st.Above = append([]string(nil), fix.above...)
				st.Texts = append([]string(nil), fix.texts...)
				st.Below = append([]string(nil), fix.below...)
			}
			fixes = append(fixes, st)
		}
		saved = SaveAutofixChanges(res)
		data, err := os.ReadFile(path)
		if err != nil {
			panic(err)
		}
		after = string(data)
	})
	return
}

// VerifC09Reload (round 5): the same *.mk file loaded twice in one run through the
// real file cache, under two LoadOptions sets. rawText is written to path (whose
// name ends in .mk: only those are cached), G is fresh; the first load is
// LoadMk(path, nil, first) when viaLoadMk (first then gets the Makefile bit, as
// in every real Makefile-mode load), else Load(path, first); the second is
// Load(path, second). Reported: the lines of the second load (isNil when Load
// returned nil), how many cache hits the run had, and panics. A panic of the
// first load is reported separately (parsing hostile text is not C09's subject).
func VerifC09Reload(path string, rawText string, first, second int, viaLoadMk bool) (lines []VerifLine, isNil bool, hits int, firstPanicked, panicked string) {
	var out bytes.Buffer
	G = NewPkglint(&out, &out)
	if err := os.WriteFile(path, []byte(rawText), 0o644); err != nil {
		return nil, false, 0, "", "panic: " + err.Error()
	}
	p := NewCurrPathString(path)
	firstPanicked = VerifPanic(func() {
		if viaLoadMk {
			_ = LoadMk(p, nil, LoadOptions(first))
		} else {
			_ = Load(p, LoadOptions(first))
		}
	})
	panicked = VerifPanic(func() {
		res := Load(p, LoadOptions(second))
		if res == nil {
			isNil = true
			return
		}
		lines = verifLines(res)
	})
	hits = G.fileCache.hits
	return
}
