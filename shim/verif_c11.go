//go:build verif

package pkglint

import (
	"bytes"
	"errors"
)

// C11: drivers around parseShellProgram, splitIntoShellTokens, ShellLexer.Lex
// and the goyacc parser.  Add-only; never part of /repo.

func verifC11Reset() (*bytes.Buffer, *Line) {
	var out bytes.Buffer
	G = NewPkglint(&out, &out)
	line := NewLineWhole(NewCurrPath("Makefile"))
	return &out, line
}

// VerifParseShell runs the real parseShellProgram (tokenizer + lexer + yacc
// parser) on one shell command line and reports whether it was accepted.
// kind: "" accepted, "parse" = *ParseError, "rest" = the tokenizer left a rest,
// "panic" = a panic.  diag = what was logged while parsing.
func VerifParseShell(program string) (accepted bool, kind string, errText string, diag string) {
	accepted, kind, errText, diag, _ = VerifParseShell2(program)
	return
}

// VerifParseShell2 also returns the number of tokens not yet consumed when the
// parser gave up (len(ParseError.RemainingTokens); the first of them is the
// token Lex had returned last).
func VerifParseShell2(program string) (accepted bool, kind string, errText string, diag string, remaining int) {
	out, line := verifC11Reset()
	p := VerifPanic(func() {
		list, err := parseShellProgram(line, program)
		if err == nil {
			accepted = list != nil
			if list == nil {
				kind, errText = "nil", "parseShellProgram returned neither a program nor an error"
			}
			return
		}
		errText = err.Error()
		var pe *ParseError
		if errors.As(err, &pe) {
			kind = "parse"
			remaining = len(pe.RemainingTokens)
		} else {
			kind = "rest"
		}
	})
	if p != "" {
		return false, "panic", p, out.String(), 0
	}
	return accepted, kind, errText, out.String(), remaining
}

// verifWordKind classifies a token text the way ShellLexer.Lex looks at it
// when it turns it into a word: 0 = ordinary, 1 = a single expression atom
// whose last modifier starts with "@" or "=", 2 = ShToken() returns nil.
func verifWordKind(token string) (kind int) {
	kind = 2
	_ = VerifPanic(func() {
		w := NewShTokenizer(nil, token).ShToken()
		if w == nil {
			return
		}
		kind = 0
		if len(w.Atoms) == 1 {
			if expr := w.Atoms[0].Expr(); expr != nil && len(expr.modifiers) > 0 {
				last := expr.modifiers[len(expr.modifiers)-1]
				if last.HasPrefix("@") || last.HasPrefix("=") {
					kind = 1
				}
			}
		}
	})
	return
}

// VerifWordKind is verifWordKind, exported.
func VerifWordKind(token string) int { return verifWordKind(token) }

// VerifShellSplit runs the real splitIntoShellTokens and classifies every token.
func VerifShellSplit(program string) (tokens []string, rest string, kinds []int, panicked string) {
	_, line := verifC11Reset()
	panicked = VerifPanic(func() {
		tokens, rest = splitIntoShellTokens(line, program)
	})
	for _, t := range tokens {
		kinds = append(kinds, verifWordKind(t))
	}
	return
}

// VerifShellLexTokens feeds an already split token list to a fresh ShellLexer
// and returns what Lex returns, call by call, up to and including the first 0.
func VerifShellLexTokens(tokens []string) (types []int, panicked string) {
	verifC11Reset()
	panicked = VerifPanic(func() {
		lex := NewShellLexer(append([]string(nil), tokens...), "")
		for i := 0; i < 2*len(tokens)+2; i++ {
			var lval shyySymType
			t := lex.Lex(&lval)
			types = append(types, t)
			if t == 0 {
				return
			}
		}
	})
	return
}

// VerifShellParseTokens runs ShellLexer + the goyacc parser on a token list.
// result: 0 = accepted, 1 = syntax error, -1 = panic.
func VerifShellParseTokens(tokens []string) (result int, panicked string) {
	verifC11Reset()
	result = -1
	panicked = VerifPanic(func() {
		lex := NewShellLexer(append([]string(nil), tokens...), "")
		parser := shyyParserImpl{}
		result = parser.Parse(lex)
	})
	if panicked != "" {
		result = -1
	}
	return
}

// VerifShellTokenName maps a value returned by Lex to the grammar's token name.
func VerifShellTokenName(t int) string {
	if t == 0 {
		return "$end"
	}
	if t >= shyyPrivate && t-shyyPrivate < len(shyyTok2) {
		return shyyTokname(int(shyyTok2[t-shyyPrivate]))
	}
	return sprintf("tok-%d", t)
}
