//go:build verif

package pkglint

import (
	"bytes"
	"encoding/hex"
	"strings"
	"sync"
)

// verifC08Mu serialises the drivers below: they replace the global G.
var verifC08Mu sync.Mutex

func verifHex(s string) string {
	if s == "" {
		return "-"
	}
	return hex.EncodeToString([]byte(s))
}

func verifB01(b bool) string {
	if b {
		return "b1"
	}
	return "b0"
}

// VerifParseCommandLineResult is what Pkglint.ParseCommandLine left behind.
type VerifParseCommandLineResult struct {
	Exit   int               // -1 = continue with the main loop
	Fields map[string]string // target expression of the option table -> value (b0 | b1 | l<hex>,<hex>)
	Todo   []string
	Stdout string
	Stderr string
	Panic  string
}

// VerifParseCommandLine runs the real Pkglint.ParseCommandLine on a fresh G and
// reports every variable the option table stores into, keyed by the expression
// that appears in the source (`&lopts.Explain` -> "lopts.Explain").
// showHelp / showVersion are locals of ParseCommandLine; they are observable
// only through the exit code and the output, which the harness interprets.
func VerifParseCommandLine(args []string) VerifParseCommandLineResult {
	verifC08Mu.Lock()
	defer verifC08Mu.Unlock()
	var out, err bytes.Buffer
	saved := G
	savedTracing := trace.Tracing
	defer func() { G = saved; trace.Tracing = savedTracing }()
	G = NewPkglint(&out, &err)
	var r VerifParseCommandLineResult
	r.Panic = VerifPanic(func() { r.Exit = G.ParseCommandLine(args) })
	o := &G.Logger.Opts
	only := make([]string, len(o.Only))
	for i, s := range o.Only {
		only[i] = verifHex(s)
	}
	r.Fields = map[string]string{
		"trace.Tracing":     verifB01(trace.Tracing),
		"lopts.Explain":     verifB01(o.Explain),
		"lopts.ShowAutofix": verifB01(o.ShowAutofix),
		"lopts.Autofix":     verifB01(o.Autofix),
		"lopts.GccOutput":   verifB01(o.GccOutput),
		"lopts.Quiet":       verifB01(o.Quiet),
		"lopts.ShowSource":  verifB01(o.ShowSource),
		"lopts.Only":        "l" + strings.Join(only, ","),
		"p.DumpMakefile":    verifB01(G.DumpMakefile),
		"p.Import":          verifB01(G.Import),
		"p.Network":         verifB01(G.Network),
		"p.Profiling":       verifB01(G.Profiling),
		"p.Recursive":       verifB01(G.Recursive),
		"p.CheckGlobal":     verifB01(G.CheckGlobal),
		"p.WarnError":       verifB01(G.WarnError),
		"p.WarnExtra":       verifB01(G.WarnExtra),
		"p.WarnPerm":        verifB01(G.WarnPerm),
		"p.WarnQuoting":     verifB01(G.WarnQuoting),
	}
	for !G.Todo.IsEmpty() {
		r.Todo = append(r.Todo, G.Todo.Pop().String())
	}
	r.Stdout, r.Stderr = out.String(), err.String()
	return r
}

// ---------- Logger scripts (C08, C06log; the Autofix builders may reuse them) ----------

type VerifLoggerOpts struct {
	ShowAutofix, Autofix, Explain, ShowSource, GccOutput, Quiet bool
	Only                                                        []string
}

type VerifLogLine struct {
	File   string
	Lineno int      // 0 = whole file, -1 = EOF
	Raws   []string // orignl of every raw line
}

type VerifAction struct {
	Descr  string
	Lineno int
}

// VerifEvent is one call into the Logger.
//
//	'D' Logger.Diag(line, level, Format, Arg)       level 'E' 'W' 'N'; HasArg: Format contains one %s
//	'X' Logger.Explain(Expl...)
//	'F' Autofix.Apply on Line, with line.fix = (Above, Texts, Below), the diagnostic
//	    (Level, Format, Arg; Level 'Z' = Silent()), Expl and Actions
//	'S' SaveAutofixChanges on Line with fix.modified = Modified (only without --autofix)
//	'T' Logger.TechErrorf(Loc, "%s", Msg)
//	'Y' Logger.ShowSummary(Args)
type VerifEvent struct {
	Kind                byte
	Line                int
	Level               byte
	Format, Arg         string
	HasArg              bool
	Expl                []string
	Above, Texts, Below []string
	Actions             []VerifAction
	Modified            bool
	Loc, Msg            string
	Args                []string
}

type VerifLoggerResult struct {
	Stdout, Stderr           string
	Errors, Warnings, Notes  int
	ExplAvail, AutofixAvail  bool
	SuppressDiag, SuppressEx bool
	Panic                    string
	EventsDone               int
}

// VerifLoggerScript drives the real Logger (fresh G, output captured) with the given events.
func VerifLoggerScript(opts VerifLoggerOpts, lines []VerifLogLine, events []VerifEvent) VerifLoggerResult {
	verifC08Mu.Lock()
	defer verifC08Mu.Unlock()
	var out, err bytes.Buffer
	saved := G
	defer func() { G = saved }()
	G = NewPkglint(&out, &err)
	G.Logger.Opts = LoggerOpts{ShowAutofix: opts.ShowAutofix, Autofix: opts.Autofix, Explain: opts.Explain,
		ShowSource: opts.ShowSource, GccOutput: opts.GccOutput, Quiet: opts.Quiet, Only: opts.Only}
	ls := make([]*Line, len(lines))
	for i, vl := range lines {
		var raws []*RawLine
		text := ""
		for j, r := range vl.Raws {
			raws = append(raws, &RawLine{r})
			if j == 0 {
				text = strings.TrimSuffix(r, "\n")
			}
		}
		ls[i] = NewLineMulti(NewCurrPathString(vl.File), vl.Lineno, text, raws)
	}
	level := func(b byte) *LogLevel {
		switch b {
		case 'E':
			return Error
		case 'W':
			return Warn
		}
		return Note
	}
	var r VerifLoggerResult
	r.Panic = VerifPanic(func() {
		for _, ev := range events {
			var args []interface{}
			if ev.HasArg {
				args = []interface{}{ev.Arg}
			}
			switch ev.Kind {
			case 'D':
				G.Logger.Diag(ls[ev.Line], level(ev.Level), ev.Format, args...)
			case 'X':
				G.Logger.Explain(ev.Expl...)
			case 'F':
				line := ls[ev.Line]
				fix := line.Autofix()
				fix.above, fix.texts, fix.below = ev.Above, ev.Texts, ev.Below
				switch ev.Level {
				case 'E':
					fix.Errorf(ev.Format, args...)
				case 'W':
					fix.Warnf(ev.Format, args...)
				case 'N':
					fix.Notef(ev.Format, args...)
				default:
					fix.Silent()
				}
				if len(ev.Expl) > 0 && ev.Level != 'Z' {
					fix.Explain(ev.Expl...)
				}
				for _, a := range ev.Actions {
					fix.actions = append(fix.actions, autofixAction{a.Descr, a.Lineno})
				}
				fix.Apply()
			case 'S':
				line := ls[ev.Line]
				line.Autofix().modified = ev.Modified
				if !G.Logger.Opts.Autofix {
					SaveAutofixChanges(NewLines(line.Filename(), []*Line{line}))
				}
			case 'T':
				G.Logger.TechErrorf(NewCurrPathString(ev.Loc), "%s", ev.Msg)
			case 'Y':
				G.Logger.ShowSummary(ev.Args)
			}
			r.EventsDone++
		}
	})
	l := &G.Logger
	r.Stdout, r.Stderr = out.String(), err.String()
	r.Errors, r.Warnings, r.Notes = l.errors, l.warnings, l.notes
	r.ExplAvail, r.AutofixAvail = l.explanationsAvailable, l.autofixAvailable
	r.SuppressDiag, r.SuppressEx = l.suppressDiag, l.suppressExpl
	return r
}

// VerifEscapePrintable exposes escapePrintable (C06log).
func VerifEscapePrintable(s string) string { return escapePrintable(s) }
