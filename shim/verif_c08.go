//go:build verif

package pkglint

import (
	"bytes"
	"encoding/hex"
	"strings"
	"sync"
)

// verifC08Mu serialises the drivers below: they replace the global G.
var verifC08Mu sync.Mutex

func verifHex(s string) string {
	if s == "" {
		return "-"
	}
	return hex.EncodeToString([]byte(s))
}

func verifB01(b bool) string {
	if b {
		return "b1"
	}
	return "b0"
}

// VerifParseCommandLineResult is what Pkglint.ParseCommandLine left behind.
type VerifParseCommandLineResult struct {
	Exit   int               // -1 = continue with the main loop
	Fields map[string]string // target expression of the option table -> value (b0 | b1 | l<hex>,<hex>)
	Todo   []string
	Stdout string
	Stderr string
	Panic  string
}

// VerifParseCommandLine runs the real Pkglint.ParseCommandLine on a fresh G and
// reports every variable the option table stores into, keyed by the expression
// that appears in the source (`&lopts.Explain` -> "lopts.Explain").
// showHelp / showVersion are locals of ParseCommandLine; they are observable
// only through the exit code and the output, which the harness interprets.
func VerifParseCommandLine(args []string) VerifParseCommandLineResult {
	verifC08Mu.Lock()
	defer verifC08Mu.Unlock()
	var out, err bytes.Buffer
	saved := G
	savedTracing := trace.Tracing
	defer func() { G = saved; trace.Tracing = savedTracing }()
	G = NewPkglint(&out, &err)
	var r VerifParseCommandLineResult
	r.Panic = VerifPanic(func() { r.Exit = G.ParseCommandLine(args) })
	o := &G.Logger.Opts
	only := make([]string, len(o.Only))
	for i, s := range o.Only {
		only[i] = verifHex(s)
	}
	r.Fields = map[string]string{
		"trace.Tracing":     verifB01(trace.Tracing),
		"lopts.Explain":     verifB01(o.Explain),
		"lopts.ShowAutofix": verifB01(o.ShowAutofix),
		"lopts.Autofix":     verifB01(o.Autofix),
		"lopts.GccOutput":   verifB01(o.GccOutput),
		"lopts.Quiet":       verifB01(o.Quiet),
		"lopts.ShowSource":  verifB01(o.ShowSource),
		"lopts.Only":        "l" + strings.Join(only, ","),
		"p.DumpMakefile":    verifB01(G.DumpMakefile),
		"p.Import":          verifB01(G.Import),
		"p.Network":         verifB01(G.Network),
		"p.Profiling":       verifB01(G.Profiling),
		"p.Recursive":       verifB01(G.Recursive),
		"p.CheckGlobal":     verifB01(G.CheckGlobal),
		"p.WarnError":       verifB01(G.WarnError),
		"p.WarnExtra":       verifB01(G.WarnExtra),
		"p.WarnPerm":        verifB01(G.WarnPerm),
		"p.WarnQuoting":     verifB01(G.WarnQuoting),
	}
	for !G.Todo.IsEmpty() {
		r.Todo = append(r.Todo, G.Todo.Pop().String())
	}
	r.Stdout, r.Stderr = out.String(), err.String()
	return r
}
