//go:build verif

package pkglint

import (
	"bytes"
	"os"
)

// VerifC17Line is one physical line of a (possibly inlined) makefile, as
// MkLines sees it after an .include has been resolved: the lines of the
// included file follow the .include line, with their own file name and line
// numbers (the same shape Package.parse and Tester.SetUpHierarchy build).
type VerifC17Line struct {
	File   string
	Lineno int
	Text   string
}

// VerifC17Redundant feeds the given lines through the real makefile parser
// and RedundantScope.Check, with a freshly initialised G (G.Testing false),
// and returns everything that was logged ("NOTE: file:3: ..." lines).
// A panic is returned as "panic:<msg>".
func VerifC17Redundant(lines []VerifC17Line) (output string, panicked string) {
	var out bytes.Buffer
	saved := G
	defer func() { G = saved }()
	G = NewPkglint(&out, &out)
	G.Pkgsrc = NewPkgsrc(NewCurrPath("."))

	panicked = VerifPanic(func() {
		if len(lines) == 0 {
			return
		}
		var ls []*Line
		for _, l := range lines {
			ls = append(ls, NewLine(NewCurrPath(NewPath(l.File)), l.Lineno, l.Text, &RawLine{l.Text + "\n"}))
		}
		mklines := NewMkLines(NewLines(NewCurrPath(NewPath(lines[0].File)), ls), nil, nil)
		out.Reset() // diagnostics of the parser are not the subject here
		NewRedundantScope().Check(mklines)
	})
	_ = os.Stdout
	return out.String(), panicked
}
