//go:build verif

package pkglint

import (
	"bytes"
	"os"
)

// C07: a complete pkglint run inside the calling process, exactly as
// cmd/pkglint/main.go does it (G.Main(stdout, stderr, args)) but with a fresh
// G and captured output, so that several runs can follow each other in ONE
// process. Everything that survives `G = NewPkglint(...)` (package-level
// variables, caches) is what the in-process determinism check is about.

type VerifRunResult struct {
	Stdout, Stderr string
	Exit           int
	Panic          string         // "" or "panic:<msg>" (a panic that is not pkglintFatal)
	MapSizes       map[string]int // sizes of the audited long-lived maps after the run
}

// VerifRunMain changes the working directory of the process to cwd, creates a
// fresh G and runs Main. args[0] is the program name.
func VerifRunMain(args []string, cwd string) VerifRunResult {
	var res VerifRunResult
	if err := os.Chdir(cwd); err != nil {
		res.Panic = "panic:chdir: " + err.Error()
		return res
	}
	var out, errOut bytes.Buffer
	G = NewPkglint(&out, &errOut)
	res.Panic = VerifPanic(func() { res.Exit = G.Main(&out, &errOut, args) })
	res.Stdout, res.Stderr = out.String(), errOut.String()
	res.MapSizes = verifMapSizes()
	return res
}

// verifMapSizes reports the number of keys of those maps from
// audit/maprange.json that are still reachable from G after Main returned.
func verifMapSizes() map[string]int {
	m := map[string]int{}
	if G.Pkgsrc == nil {
		return m
	}
	src := G.Pkgsrc
	m["Pkgsrc.MasterSiteURLToVar"] = len(src.MasterSiteURLToVar)
	if src.Tools != nil {
		m["Pkgsrc.Tools.byName"] = len(src.Tools.byName)
	}
	m["Pkgsrc.changes.LastChange"] = len(src.changes.LastChange)
	m["Pkgsrc.UserDefinedVars"] = len(src.UserDefinedVars.vs)
	return m
}

// Unit correspondence for Model/MapIter.v: the helpers themselves, on a map
// built from the given keys (duplicates collapse, as in any map).
func VerifKeysSorted(keys []string) []string {
	m := map[string]bool{}
	for _, k := range keys {
		m[k] = true
	}
	return keysSorted(m)
}

func VerifKeysJoined(keys []string) string {
	m := map[string]bool{}
	for _, k := range keys {
		m[k] = true
	}
	return keysJoined(m)
}

func VerifForEachStringMkLine(keys []string) []string {
	m := map[string]*MkLine{}
	for _, k := range keys {
		m[k] = nil
	}
	var order []string
	forEachStringMkLine(m, func(s string, _ *MkLine) { order = append(order, s) })
	return order
}

// ---------- C07, Model/CvsEntries.v: CVS/Entries parsing and isLocallyModified ----------

type VerifCvsEntry struct {
	Name, Revision, Timestamp, Options, TagDate string
}

type VerifCvsLoad struct {
	Entries []VerifCvsEntry // the resulting map, in no particular order
	Nil     bool            // loadCvsEntries returned a nil map (no CVS/Entries)
	Invalid int             // number of "Invalid line" errors logged
	Output  string
	Panic   string
}

// verifWriteCvs writes dir/CVS/Entries and dir/CVS/Entries.Log (nil = file absent).
func verifWriteCvs(dir string, entries, log *string) error {
	if err := os.MkdirAll(dir+"/CVS", 0o755); err != nil {
		return err
	}
	for _, f := range []struct {
		name string
		data *string
	}{{"Entries", entries}, {"Entries.Log", log}} {
		p := dir + "/CVS/" + f.name
		if f.data == nil {
			if err := os.Remove(p); err != nil && !os.IsNotExist(err) {
				return err
			}
		} else if err := os.WriteFile(p, []byte(*f.data), 0o644); err != nil {
			return err
		}
	}
	return nil
}

// VerifLoadCvsEntries runs Pkglint.loadCvsEntries (fresh G) for a file in dir.
func VerifLoadCvsEntries(dir string, entries, log *string) VerifCvsLoad {
	var res VerifCvsLoad
	if err := verifWriteCvs(dir, entries, log); err != nil {
		res.Panic = "panic:setup: " + err.Error()
		return res
	}
	var out, errOut bytes.Buffer
	G = NewPkglint(&out, &errOut)
	res.Panic = VerifPanic(func() {
		m := G.loadCvsEntries(NewCurrPathString(dir + "/file"))
		res.Nil = m == nil
		for k, e := range m {
			if k != e.Name {
				res.Panic = "panic:key differs from the entry's name"
			}
			res.Entries = append(res.Entries, VerifCvsEntry{e.Name.String(), e.Revision, e.Timestamp, e.Options, e.TagDate})
		}
	})
	res.Output = out.String() + errOut.String()
	for _, l := range bytes.Split(out.Bytes(), []byte("\n")) {
		if bytes.Contains(l, []byte(": Invalid line: ")) && bytes.HasPrefix(l, []byte("ERROR: ")) {
			res.Invalid++
		}
	}
	return res
}

// VerifIsLocallyModified runs isLocallyModified(dir/name) with a fresh G on the CVS/Entries given.
// The file dir/name must have been prepared by the caller (or be absent).
func VerifIsLocallyModified(dir, name string, entries, log *string) (modified bool, panicked string) {
	if err := verifWriteCvs(dir, entries, log); err != nil {
		return false, "panic:setup: " + err.Error()
	}
	var out, errOut bytes.Buffer
	G = NewPkglint(&out, &errOut)
	panicked = VerifPanic(func() { modified = isLocallyModified(NewCurrPathString(dir + "/" + name)) })
	return
}

// VerifRunMainSameG runs Main the way the test suite's Tester.Main does when a
// test calls it several times: on the G of the previous call.  Everything in G
// survives (file cache, interner, regex registry, cvs entries cache, ...) except
// the output formatter: Tester.Main resets Logger.errors/warnings/logged; here
// the whole Logger is reset (suppress state, explained-once set, hint flags)
// because Main re-creates its writers and option values anyway.  fresh = true
// starts with a new G (first run of a sequence).  The working directory must be
// the same for all runs of a sequence (G.cwd is set by NewPkglint).
var verifSameGReady bool

func VerifRunMainSameG(args []string, cwd string, fresh bool) VerifRunResult {
	var res VerifRunResult
	if err := os.Chdir(cwd); err != nil {
		res.Panic = "panic:chdir: " + err.Error()
		return res
	}
	var out, errOut bytes.Buffer
	if fresh || !verifSameGReady {
		G = NewPkglint(&out, &errOut)
		verifSameGReady = true
	} else {
		G.Logger = Logger{}
	}
	res.Panic = VerifPanic(func() { res.Exit = G.Main(&out, &errOut, args) })
	res.Stdout, res.Stderr = out.String(), errOut.String()
	res.MapSizes = verifMapSizes()
	return res
}
