//go:build verif

package pkglint

import (
	"bytes"
	"os"
)

// C07: a complete pkglint run inside the calling process, exactly as
// cmd/pkglint/main.go does it (G.Main(stdout, stderr, args)) but with a fresh
// G and captured output, so that several runs can follow each other in ONE
// process. Everything that survives `G = NewPkglint(...)` (package-level
// variables, caches) is what the in-process determinism check is about.

type VerifRunResult struct {
	Stdout, Stderr string
	Exit           int
	Panic          string         // "" or "panic:<msg>" (a panic that is not pkglintFatal)
	MapSizes       map[string]int // sizes of the audited long-lived maps after the run
}

// VerifRunMain changes the working directory of the process to cwd, creates a
// fresh G and runs Main. args[0] is the program name.
func VerifRunMain(args []string, cwd string) VerifRunResult {
	var res VerifRunResult
	if err := os.Chdir(cwd); err != nil {
		res.Panic = "panic:chdir: " + err.Error()
		return res
	}
	var out, errOut bytes.Buffer
	G = NewPkglint(&out, &errOut)
	res.Panic = VerifPanic(func() { res.Exit = G.Main(&out, &errOut, args) })
	res.Stdout, res.Stderr = out.String(), errOut.String()
	res.MapSizes = verifMapSizes()
	return res
}

// verifMapSizes reports the number of keys of those maps from
// audit/maprange.json that are still reachable from G after Main returned.
func verifMapSizes() map[string]int {
	m := map[string]int{}
	if G.Pkgsrc == nil {
		return m
	}
	src := G.Pkgsrc
	m["Pkgsrc.MasterSiteURLToVar"] = len(src.MasterSiteURLToVar)
	if src.Tools != nil {
		m["Pkgsrc.Tools.byName"] = len(src.Tools.byName)
	}
	m["Pkgsrc.changes.LastChange"] = len(src.changes.LastChange)
	m["Pkgsrc.UserDefinedVars"] = len(src.UserDefinedVars.vs)
	return m
}

// Unit correspondence for Model/MapIter.v: the helpers themselves, on a map
// built from the given keys (duplicates collapse, as in any map).
func VerifKeysSorted(keys []string) []string {
	m := map[string]bool{}
	for _, k := range keys {
		m[k] = true
	}
	return keysSorted(m)
}

func VerifKeysJoined(keys []string) string {
	m := map[string]bool{}
	for _, k := range keys {
		m[k] = true
	}
	return keysJoined(m)
}

func VerifForEachStringMkLine(keys []string) []string {
	m := map[string]*MkLine{}
	for _, k := range keys {
		m[k] = nil
	}
	var order []string
	forEachStringMkLine(m, func(s string, _ *MkLine) { order = append(order, s) })
	return order
}
