//go:build verif

package pkglint

import (
	"bytes"
	"io"
	"strings"
)

// C04: drives the real Logger + Autofix with a script of events, in a given
// mode. Add-only; used by harness/c04_unit.go.

type VerifModesLine struct {
	File   string
	Lineno int
	Text   string
	Raw    []string // orignl of the physical lines
}

type VerifModesOp struct {
	Kind      string // RA ReplaceAfter, RT ReplaceAt, IA InsertAbove, IB InsertBelow, DL Delete, DS Custom+Describef
	Prefix    string
	From, To  string
	RawIndex  int
	TextIndex int
	Text      string
}

type VerifModesEvent struct {
	Kind    string // diag explain fix save summary
	Line    int
	Level   string // E W N
	Format  string // contains exactly one %s unless it is the silent format
	Arg     string
	Explain bool
	Ops     []VerifModesOp
}

type VerifModesLineState struct {
	Texts    []string
	Text     string
	Above    []string
	Below    []string
	Modified bool
}

type VerifModesResult struct {
	Out                   string
	Err                   string
	Lines                 []VerifModesLineState
	AutofixAvailable      bool
	ExplanationsAvailable bool
	Errors, Warnings      int
	Notes                 int
	Panic                 string
	PanicAt               int // index of the event during which the panic happened
}

func VerifModesScript(show, autofix, source bool, only []string, specs []VerifModesLine, events []VerifModesEvent) (res VerifModesResult) {
	var out, errb bytes.Buffer
	G = NewPkglint(&out, &errb)
	G.Logger.Opts = LoggerOpts{ShowAutofix: show, Autofix: autofix, ShowSource: source, Only: only}

	lines := make([]*Line, len(specs))
	for i, s := range specs {
		raws := make([]*RawLine, len(s.Raw))
		for j, r := range s.Raw {
			raws[j] = &RawLine{r}
		}
		lines[i] = NewLineMulti(NewCurrPath(NewPath(s.File)), s.Lineno, s.Text, raws)
	}
	level := func(l string) *LogLevel {
		switch l {
		case "E":
			return Error
		case "W":
			return Warn
		}
		return Note
	}

	at := 0
	res.PanicAt = -1
	res.Panic = VerifPanic(func() {
		for i, e := range events {
			at = i
			switch e.Kind {
			case "diag":
				if !contains(e.Format, "%s") {
					G.Logger.Diag(lines[e.Line], level(e.Level), e.Format)
				} else {
					G.Logger.Diag(lines[e.Line], level(e.Level), e.Format, e.Arg)
				}
			case "explain":
				lines[0].Explain("An explanation.")
			case "fix":
				fix := lines[e.Line].Autofix()
				var args []interface{}
				if contains(e.Format, "%s") {
					args = []interface{}{e.Arg}
				}
				switch e.Level {
				case "E":
					fix.Errorf(e.Format, args...)
				case "W":
					fix.Warnf(e.Format, args...)
				default:
					fix.Notef(e.Format, args...)
				}
				if e.Explain {
					fix.Explain("An explanation.")
				}
				for _, o := range e.Ops {
					o := o
					switch o.Kind {
					case "RA":
						fix.ReplaceAfter(o.Prefix, o.From, o.To)
					case "RT":
						fix.ReplaceAt(o.RawIndex, o.TextIndex, o.From, o.To)
					case "IA":
						fix.InsertAbove(o.Text)
					case "IB":
						fix.InsertBelow(o.Text)
					case "DL":
						fix.Delete()
					case "DS":
						fix.Custom(func(showAutofix, autofix bool) {
							fix.Describef(o.RawIndex, "%s", o.Text)
						})
					}
				}
				fix.Apply()
			case "save":
				// one Lines object per file, as pkglint does
				byFile := map[string][]*Line{}
				var order []string
				for _, l := range lines {
					f := l.Filename().String()
					if _, ok := byFile[f]; !ok {
						order = append(order, f)
					}
					byFile[f] = append(byFile[f], l)
				}
				for _, f := range order {
					SaveAutofixChanges(NewLines(NewCurrPath(NewPath(f)), byFile[f]))
				}
			case "summary":
				G.Logger.ShowSummary([]string{"pkglint"})
			}
		}
		at = len(events)
	})
	if res.Panic != "" {
		res.PanicAt = at
	}
	res.Out = out.String()
	res.Err = errb.String()
	for _, l := range lines {
		st := VerifModesLineState{Text: l.Text}
		if l.fix != nil {
			st.Texts = append(st.Texts, l.fix.texts...)
			st.Above = append(st.Above, l.fix.above...)
			st.Below = append(st.Below, l.fix.below...)
			st.Modified = l.fix.modified
		} else {
			for _, r := range l.raw {
				st.Texts = append(st.Texts, r.orignl)
			}
		}
		res.Lines = append(res.Lines, st)
	}
	res.AutofixAvailable = G.Logger.autofixAvailable
	res.ExplanationsAvailable = G.Logger.explanationsAvailable
	res.Errors, res.Warnings, res.Notes = G.Logger.errors, G.Logger.warnings, G.Logger.notes
	return
}

// ---------- the paragraph-level check (VaralignBlock) between other fixes ----------

// VerifParaFix is one Replace(from, to) applied to a line of the paragraph
// after VaralignBlock.Process has seen all lines and before Finish.
type VerifParaFix struct {
	Line     int // index into the lines of the paragraph
	From, To string
}

type VerifParaResult struct {
	Panic       string
	Output      []string // the diagnostics of the whole script, in order
	TextsBefore []string // Autofix.texts[0] of every line when Finish is called
	FinishOut   []string // what Finish itself has printed
}

// VerifPara parses rawLines (one paragraph of single-line variable
// assignments) as a makefile fragment, lets VaralignBlock.Process see every
// line, applies the fixes (fix.Notef("r"); fix.Replace(from, to); fix.Apply())
// and then calls VaralignBlock.Finish, in the given mode.
func VerifPara(show, autofix bool, rawLines []string, fixes []VerifParaFix) (res VerifParaResult) {
	var out bytes.Buffer
	res.Panic = VerifPanic(func() {
		G = NewPkglint(&out, io.Discard)
		G.Logger.Opts = LoggerOpts{ShowAutofix: show, Autofix: autofix}
		G.WarnExtra = true
		var sb strings.Builder
		for _, l := range rawLines {
			sb.WriteString(l)
			sb.WriteString("\n")
		}
		lines := convertToLogicalLines(NewCurrPath("f"), sb.String(), true)
		mklines := NewMkLines(lines, nil, nil)
		var va VaralignBlock
		for _, mkline := range mklines.mklines {
			va.Process(mkline)
		}
		for _, f := range fixes {
			if f.Line < 0 || f.Line >= len(mklines.mklines) {
				continue
			}
			fix := mklines.mklines[f.Line].Autofix()
			fix.Notef("r")
			fix.Replace(f.From, f.To)
			fix.Apply()
		}
		for _, mkline := range mklines.mklines {
			res.TextsBefore = append(res.TextsBefore, mkline.Autofix().texts[0])
		}
		n := out.Len()
		va.Finish()
		for _, l := range strings.Split(out.String()[n:], "\n") {
			if l != "" {
				res.FinishOut = append(res.FinishOut, l)
			}
		}
	})
	for _, l := range strings.Split(out.String(), "\n") {
		if l != "" {
			res.Output = append(res.Output, l)
		}
	}
	return
}
