//go:build verif

package pkglint

import "bytes"

// C18: the digest pkglint computes for a patch file.

// VerifComputePatchSha1Hex loads body the way checkPatchSha1 does (Load with
// options 0 = convertToLogicalLines in plain mode) and returns
// computePatchSha1Hex of the lines. Not safe for concurrent use.
func VerifComputePatchSha1Hex(body string) (sha1Hex string, panicked string) {
	var out bytes.Buffer
	G.Logger = Logger{out: NewSeparatorWriter(&out), err: NewSeparatorWriter(&out)}
	panicked = VerifPanic(func() {
		lines := convertToLogicalLines(NewCurrPathString("patches/patch-aa"), body, false)
		sha1Hex = computePatchSha1Hex(lines)
	})
	return
}
