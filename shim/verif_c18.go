//go:build verif

package pkglint

import (
	"bytes"
	"os"
)

// C18: the digest pkglint computes for a patch file, and the distinfo checker
// on one package directory.

// VerifComputePatchSha1Hex writes body to path (a file in an existing scratch
// directory, named like a patch), loads it exactly the way checkPatchSha1 does
// (Load(file, 0)) and returns computePatchSha1Hex of the lines.
// Not safe for concurrent use.
func VerifComputePatchSha1Hex(path string, body string) (sha1Hex string, panicked string) {
	var out bytes.Buffer
	G.Logger = Logger{out: NewSeparatorWriter(&out), err: NewSeparatorWriter(&out)}
	panicked = VerifPanic(func() {
		if err := os.WriteFile(path, []byte(body), 0o644); err != nil {
			panic(err)
		}
		lines := Load(NewCurrPathString(path), 0)
		if lines == nil {
			panic("Load returned nil")
		}
		sha1Hex = computePatchSha1Hex(lines)
	})
	return
}

// VerifCheckDistinfo runs CheckLinesDistinfo for the package directory pkgDir
// (pkgsrcRoot/<category>/<package>, with its patches/ already on disk) on a
// distinfo file with the given content, in default or --autofix mode.
// It returns everything that was logged and the distinfo file's bytes afterwards.
func VerifCheckDistinfo(pkgsrcRoot, pkgDir, distinfoText string, autofix bool) (out string, after string, panicked string) {
	var buf bytes.Buffer
	G = NewPkglint(&buf, &buf)
	G.Pkgsrc = NewPkgsrc(NewCurrPathString(pkgsrcRoot))
	G.Logger.Opts.Autofix = autofix
	panicked = VerifPanic(func() {
		file := pkgDir + "/distinfo"
		if err := os.WriteFile(file, []byte(distinfoText), 0o644); err != nil {
			panic(err)
		}
		pkg := NewPackage(NewCurrPathString(pkgDir))
		if lines := Load(NewCurrPathString(file), NotEmpty|LogErrors); lines != nil {
			CheckLinesDistinfo(pkg, lines)
		}
		data, err := os.ReadFile(file)
		if err != nil {
			panic(err)
		}
		after = string(data)
	})
	G.Logger.out.Flush()
	G.Logger.err.Flush()
	out = buf.String()
	return
}

// VerifC18Reset replaces the global state by a fresh one (as at program start),
// so that a following sequence of VerifComputePatchSha1Hex calls starts without
// any history (file cache, CVS entries memo, ...).
func VerifC18Reset() {
	var buf bytes.Buffer
	G = NewPkglint(&buf, &buf)
}

// VerifIsCommitted runs isCommitted(dir/base) on a fresh global state and also
// returns what loadCvsEntries gave for that file: the keys of the map (unsorted)
// and whether the map is nil; out is everything that was logged ("Invalid line").
func VerifIsCommitted(dir, base string) (committed bool, keys []string, isNil bool, out string, panicked string) {
	var buf bytes.Buffer
	G = NewPkglint(&buf, &buf)
	panicked = VerifPanic(func() {
		file := NewCurrPathString(dir + "/" + base)
		committed = isCommitted(file)
		entries := G.loadCvsEntries(file)
		isNil = entries == nil
		for k := range entries {
			keys = append(keys, k.String())
		}
	})
	G.Logger.out.Flush()
	G.Logger.err.Flush()
	out = buf.String()
	return
}
