//go:build verif

package pkglint

// Read-only accessors and thin drivers for the verification harness (/verif).
// This file is never part of /repo; bin/check copies it into a scratch mirror
// of /repo/v23 and builds the harness with -tags verif.

// VerifPanic runs f and turns a panic into an explicit observation.
func VerifPanic(f func()) (panicked string) {
	defer func() {
		if r := recover(); r != nil {
			panicked = "panic:" + sprintf("%v", r)
		}
	}()
	f()
	return ""
}
