//go:build verif

package pkglint

import (
	"bytes"
	"io"
	"strconv"
	"strings"
)

// C14: drive MkCondChecker / MkCondSimplifier on one condition and report the
// rewrites the real code offers.  Add-only, never part of /repo.

// VerifCondVar declares one typed variable for VerifCondSimplify.
//
//	Kind:  "enum:<v1> <v2> ..." | "yesno" | "ident" | "version" | "filename" |
//	       "integer" | "comment" | "unknown" (registered as BtUnknown)
//	Def:   "D" AlwaysInScope|DefinedIfInScope, use-loadtime (always defined)
//	       "P" DefinedIfInScope, use-loadtime (defined once bsd.prefs.mk is seen)
//	       "U" no options, use-loadtime (may be undefined)
//	       "L" DefinedIfInScope, use only (not usable at load time)
//	       "N" AlwaysInScope|DefinedIfInScope|NonemptyIfDefined, use-loadtime
type VerifCondVar struct {
	Name string
	Kind string
	List bool
	Def  string
}

// VerifCondResult is what the real code did with the condition line.
type VerifCondResult struct {
	NewLine  string      // text of the directive line after all fixes ("" prefix ".if " included)
	Fixes    [][2]string // from/to of every logged "Replacing %q with %q."
	Diags    []string    // all other log lines (NOTE/WARN/ERROR), for information only
	Panicked string
}

func verifC14BasicType(kind string) *BasicType {
	switch {
	case strings.HasPrefix(kind, "enum:"):
		return enum(kind[5:])
	case kind == "yesno":
		return BtYesNo
	case kind == "ident":
		return BtIdentifierDirect
	case kind == "version":
		return BtVersion
	case kind == "filename":
		return BtFilename
	case kind == "integer":
		return BtInteger
	case kind == "comment":
		return BtComment
	case kind == "unknown":
		return BtUnknown
	}
	return nil
}

// VerifCondSimplify checks the single directive line `.if <cond>` (or whatever
// `line` says) in a makefile fragment that optionally includes bsd.prefs.mk
// first and optionally assigns some variables before the condition, in
// --autofix mode, without touching the disk.  G.Testing stays false.
func VerifCondSimplify(vars []VerifCondVar, prefs bool, assigned []string, line string) VerifCondResult {
	var lines []string
	if prefs {
		lines = append(lines, ".include \"../../mk/bsd.prefs.mk\"")
	} else {
		lines = append(lines, "")
	}
	for _, a := range assigned {
		lines = append(lines, a+"=\tvalue")
	}
	lines = append(lines, "", line, ".endif")
	return VerifCondSimplifyLines(vars, lines, len(lines)-2)
}

// VerifCondSimplifyLines checks a whole makefile fragment (the lines after the
// CVS id line) the way MkLines.checkLine feeds MkCondChecker: every line goes
// through Tools.ParseToolLine (SeenPrefs), every variable assignment is entered
// into checkAllData.vars, every .if/.elif is checked.  It reports what happened
// to the line lines[condIndex].
func VerifCondSimplifyLines(vars []VerifCondVar, lines []string, condIndex int) (res VerifCondResult) {
	return VerifCondSimplifyFile(vars, "filename.mk", lines, condIndex)
}

// VerifCondSimplifyFile is VerifCondSimplifyLines for a fragment with the given
// basename; for "hacks.mk" it does what MkLines.checkAll does before every line
// (Tools.SeenPrefs = true).
func VerifCondSimplifyFile(vars []VerifCondVar, basename string, lines []string, condIndex int) (res VerifCondResult) {
	var out bytes.Buffer
	res.Panicked = VerifPanic(func() {
		G = NewPkglint(&out, io.Discard)
		G.Pkgsrc = NewPkgsrc(NewCurrPath("/nonexistent/verif-c14"))
		G.Project = G.Pkgsrc
		G.Logger.Opts.Autofix = true
		G.Logger.Opts.ShowAutofix = false
		G.WarnExtra = true
		G.WarnPerm = true
		G.WarnQuoting = true

		for _, v := range vars {
			bt := verifC14BasicType(v.Kind)
			if bt == nil {
				continue
			}
			var opts vartypeOptions
			acl := "*.mk: use, use-loadtime"
			switch v.Def {
			case "D":
				opts = AlwaysInScope | DefinedIfInScope
			case "P":
				opts = DefinedIfInScope
			case "U":
				opts = NoVartypeOptions
			case "L":
				opts = DefinedIfInScope
				acl = "*.mk: use"
			case "N":
				opts = AlwaysInScope | DefinedIfInScope | NonemptyIfDefined
			}
			if v.List {
				opts |= List
			}
			G.Pkgsrc.Types().acl(v.Name, bt, opts, acl)
		}

		var sb strings.Builder
		sb.WriteString("# $" + "NetBSD$\n")
		for _, l := range lines {
			sb.WriteString(l + "\n")
		}

		loaded := convertToLogicalLines(NewCurrPath(NewPath(basename)), sb.String(), true)
		mklines := NewMkLines(loaded, nil, nil)
		isHacksMk := mklines.lines.BaseName == "hacks.mk"
		mklines.ForEach(func(mkline *MkLine) {
			if isHacksMk {
				mklines.Tools.SeenPrefs = true // MkLines.checkAll
			}
			mklines.Tools.ParseToolLine(mklines, mkline, false, false)
			if mkline.IsVarassign() && !mklines.indentation.IsConditional() {
				mklines.checkAllData.vars.Define(mkline.Varname(), mkline)
			}
			if mkline.IsDirective() && (mkline.Directive() == "if" || mkline.Directive() == "elif") {
				NewMkCondChecker(mkline, mklines).Check()
			}
		})
		ml := mklines.mklines[condIndex+1]
		if ml.Line.fix != nil && len(ml.Line.fix.texts) > 0 {
			res.NewLine = strings.TrimSuffix(ml.Line.fix.texts[0], "\n")
		} else {
			res.NewLine = ml.Line.Text
		}
	})
	res.Fixes, res.Diags = verifC14ParseLog(out.String(), basename, condIndex+2)
	return
}

// the logged "Replacing %q with %q." of one line number; everything else as diagnostics
func verifC14ParseLog(log string, basename string, lineno int) (fixes [][2]string, diags []string) {
	prefix := "AUTOFIX: " + basename + ":" + strconv.Itoa(lineno) + ": Replacing "
	for _, l := range strings.Split(log, "\n") {
		if l == "" {
			continue
		}
		if strings.HasPrefix(l, prefix) {
			rest := l[len(prefix):]
			if q1, err := strconv.QuotedPrefix(rest); err == nil {
				from, _ := strconv.Unquote(q1)
				rest = rest[len(q1):]
				if strings.HasPrefix(rest, " with ") {
					rest = rest[6:]
					if q2, err := strconv.QuotedPrefix(rest); err == nil {
						to, _ := strconv.Unquote(q2)
						fixes = append(fixes, [2]string{from, to})
						continue
					}
				}
			}
		}
		diags = append(diags, l)
	}
	return
}

// VerifMayMatchNumber14 exposes MkCondSimplifier.mayMatchNumber.
func VerifMayMatchNumber14(pattern string) (may bool, errText string) {
	m, err := (*MkCondSimplifier).mayMatchNumber(nil, pattern)
	if err != nil {
		return m, err.Error()
	}
	return m, ""
}

// VerifLoadsPrefs14 exposes LoadsPrefs (util.go) and the basename it switches on.
func VerifLoadsPrefs14(path string) (loads bool, base string, panicked string) {
	panicked = VerifPanic(func() {
		p := NewRelPathString(path)
		loads = LoadsPrefs(p)
		base = p.Base().String()
	})
	return
}
