//go:build verif

package pkglint

import "io"

// C10 (make half): read-only drivers around the make-expression lexer
// (mklexer.go, mktokenslexer.go), the comment/value splitting of
// mklineparser.go and VaralignSplitter.split (varalignblock.go).
// Plain data in, plain data out; a panic becomes the string "panic:...".
//
// These functions use the global G (regcomp caches compiled expressions in a
// map): they must be called from a single goroutine per process.

// VerifC10mkReset installs a fresh global state with discarded output;
// G.Testing stays false.
func VerifC10mkReset() {
	G = NewPkglint(io.Discard, io.Discard)
}

// VerifMkTokens runs MkLexer.MkTokens (no diagnostics).
func VerifMkTokens(s string) (texts []string, isExpr []bool, rest string, panicked string) {
	panicked = VerifPanic(func() {
		tokens, r := NewMkLexer(s, nil).MkTokens()
		rest = r
		for _, t := range tokens {
			texts = append(texts, t.Text)
			isExpr = append(isExpr, t.Expr != nil)
		}
	})
	return
}

// VerifMkExpr runs MkLexer.Expr once at the start of s.
func VerifMkExpr(s string) (found bool, rest string, panicked string) {
	panicked = VerifPanic(func() {
		p := NewMkLexer(s, nil)
		found = p.Expr() != nil
		rest = p.Rest()
	})
	return
}

// VerifMkVarname runs MkLexer.Varname once at the start of s.
func VerifMkVarname(s string) (varname string, rest string, panicked string) {
	panicked = VerifPanic(func() {
		p := NewMkLexer(s, nil)
		varname = p.Varname()
		rest = p.Rest()
	})
	return
}

// VerifMkTokenize runs MkLineParser.tokenize (no diagnostics).
func VerifMkTokenize(s string) (texts []string, isExpr []bool, panicked string) {
	panicked = VerifPanic(func() {
		for _, t := range NewMkLineParser().tokenize(s, nil) {
			texts = append(texts, t.Text)
			isExpr = append(isExpr, t.Expr != nil)
		}
	})
	return
}

// VerifMkTokensLexer builds a MkTokensLexer over tokenize(s) and drains it:
// an expression token via NextExpr, otherwise the rest of the current text via
// NextBytesFunc. When neither advances although EOF() is false, the drain
// stops and the remaining Rest() is returned.
func VerifMkTokensLexer(s string) (restAtStart string, pieces []string, isExpr []bool, restAtEnd string, panicked string) {
	panicked = VerifPanic(func() {
		tokens := NewMkLineParser().tokenize(s, nil)
		lexer := NewMkTokensLexer(tokens)
		restAtStart = lexer.Rest()
		for !lexer.EOF() {
			if e := lexer.NextExpr(); e != nil {
				pieces = append(pieces, e.Text)
				isExpr = append(isExpr, true)
				continue
			}
			text := lexer.NextBytesFunc(func(byte) bool { return true })
			if text == "" {
				break
			}
			pieces = append(pieces, text)
			isExpr = append(isExpr, false)
		}
		restAtEnd = lexer.Rest()
	})
	return
}

// VerifUnescapeComment runs MkLineParser.unescapeComment.
func VerifUnescapeComment(s string) (main, comment string, panicked string) {
	panicked = VerifPanic(func() {
		main, comment = NewMkLineParser().unescapeComment(s)
	})
	return
}

// VerifMkSplit runs MkLineParser.split.
func VerifMkSplit(s string, trimComment bool) (main, spaceBeforeComment string, hasComment bool, comment string, panicked string) {
	panicked = VerifPanic(func() {
		r := NewMkLineParser().split(s, trimComment)
		main, spaceBeforeComment, hasComment, comment = r.main, r.spaceBeforeComment, r.hasComment, r.comment
	})
	return
}

// VerifVaralignSplit runs VaralignSplitter.split; parts in the order of
// varalignParts.String().
func VerifVaralignSplit(rawText string, initial bool) (parts [6]string, joined string, panicked string) {
	panicked = VerifPanic(func() {
		p := NewVaralignSplitter().split(rawText, initial)
		parts = [6]string{p.leadingComment, p.varnameOp, p.spaceBeforeValue, p.value, p.spaceAfterValue, p.continuation}
		joined = p.String()
	})
	return
}

// VerifGetRawValueAlign runs MkLineParser.getRawValueAlign.
func VerifGetRawValueAlign(raw, parsed string) (align string, panicked string) {
	panicked = VerifPanic(func() {
		align = NewMkLineParser().getRawValueAlign(raw, parsed)
	})
	return
}

// VerifVarassign is what MkLineParser.Parse does for a line that does not
// start with a tab, up to and including matchVarassign, for a logical line
// that consists of the single raw line text+"\n".
type VerifVarassign struct {
	Matched            bool
	Commented          bool
	Varname            string
	SpaceAfterVarname  string
	Op                 string
	Value              string
	Main               string // splitResult after matchVarassign
	SpaceBeforeComment string
	HasComment         bool
	Comment            string
	ValueAlign         string // MkLine.ValueAlign(), only when matched
	ValueAlignPanic    string
}

func VerifMatchVarassign(text string) (res VerifVarassign, panicked string) {
	panicked = VerifPanic(func() {
		p := NewMkLineParser()
		line := NewLine("verif.mk", 1, text, &RawLine{text + "\n"})
		splitResult := p.split(text, true)
		splitResult.tokens = p.tokenize(splitResult.main, line)
		m, a := p.matchVarassign(line, text, &splitResult)
		res.Matched = m
		res.Main, res.SpaceBeforeComment = splitResult.main, splitResult.spaceBeforeComment
		res.HasComment, res.Comment = splitResult.hasComment, splitResult.comment
		if !m {
			return
		}
		res.Commented, res.Varname, res.SpaceAfterVarname = a.commented, a.varname, a.spaceAfterVarname
		res.Op, res.Value = a.op.String(), a.value
		mkline := &MkLine{line, splitResult, a}
		res.ValueAlignPanic = VerifPanic(func() { res.ValueAlign = mkline.ValueAlign() })
	})
	return
}

// VerifVarassignLine is matchVarassign on one logical line of a file, as
// MkLineParser.Parse drives it (split, tokenize, matchVarassign) on the real
// *Line that convertToLogicalLines built (several raw lines when continued).
type VerifVarassignLine struct {
	Text     string
	NRaw     int
	Res      VerifVarassign
	Panicked string
}

// VerifMatchVarassignLines loads rawText as a makefile fragment (backslash
// continuation lines joined) and runs matchVarassign on every logical line.
func VerifMatchVarassignLines(rawText string) (out []VerifVarassignLine, panicked string) {
	panicked = VerifPanic(func() {
		lines := convertToLogicalLines(NewCurrPathString("verif.mk"), rawText, true)
		for _, line := range lines.Lines {
			line := line
			var l VerifVarassignLine
			l.Text, l.NRaw = line.Text, len(line.raw)
			l.Panicked = VerifPanic(func() {
				p := NewMkLineParser()
				text := line.Text
				splitResult := p.split(text, true)
				splitResult.tokens = p.tokenize(splitResult.main, line)
				m, a := p.matchVarassign(line, text, &splitResult)
				res := &l.Res
				res.Matched = m
				res.Main, res.SpaceBeforeComment = splitResult.main, splitResult.spaceBeforeComment
				res.HasComment, res.Comment = splitResult.hasComment, splitResult.comment
				if !m {
					return
				}
				res.Commented, res.Varname, res.SpaceAfterVarname = a.commented, a.varname, a.spaceAfterVarname
				res.Op, res.Value = a.op.String(), a.value
				mkline := &MkLine{line, splitResult, a}
				res.ValueAlignPanic = VerifPanic(func() { res.ValueAlign = mkline.ValueAlign() })
			})
			out = append(out, l)
		}
	})
	return
}
