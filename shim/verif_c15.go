//go:build verif

package pkglint

import (
	"bytes"
	"io"
	"strings"
)

// C15: thin drivers around the layout fixers (tab arithmetic in util.go,
// VaralignBlock, trailing-whitespace trim, directive re-indentation, shell-tab
// normalisation, fixSpaceAfterVarname).  Add-only, never part of /repo.
// Everything runs in memory with --autofix semantics (G.Logger.Opts.Autofix),
// G.Testing stays false, nothing is written to disk.

// VerifTabOps runs one of the width helpers of util.go.
//
//	op "twa":  tabWidthAppend(a, s)          -> n
//	op "tw":   tabWidth(s)                   -> n
//	op "atw":  alignmentToWidths(a, b)       -> str
//	op "ind":  indent(a)                     -> str
//	op "aa":   alignmentAfter(s, a)          -> str
//	op "aw":   alignWith(s, t)               -> str
func VerifTabOps(op string, a, b int, s, t string) (str string, n int, panicked string) {
	panicked = VerifPanic(func() {
		switch op {
		case "twa":
			n = tabWidthAppend(a, s)
		case "tw":
			n = tabWidth(s)
		case "atw":
			str = alignmentToWidths(a, b)
		case "ind":
			str = indent(a)
		case "aa":
			str = alignmentAfter(s, a)
		case "aw":
			str = alignWith(s, t)
		default:
			panic("VerifTabOps: unknown op " + op)
		}
	})
	return
}

// VerifLayoutLine describes one logical makefile line as the real parser sees it.
type VerifLayoutLine struct {
	Kind      string      // "empty" "assign" "comment" "directive" "include" "shell" "other"
	Raw       []string    // raw lines (without newline) at the time of parsing+fixSpaceAfterVarname
	Commented bool        // commented-out assignment
	Varname   string      // for assignments
	Op        string      // for assignments
	Value     string      // for assignments
	HasComm   bool        // has a trailing comment
	Comment   string      // the comment text
	Indent    string      // directives / includes
	Parts     [][6]string // VaralignSplitter.split of each raw line (assignments only)
}

// VerifLayoutResult is what a driver observed.
type VerifLayoutResult struct {
	Before   []VerifLayoutLine // the lines as parsed, before the fixers under test ran
	Lines    []string          // all raw lines after the fixes, as SaveAutofixChanges would write them
	Actions  []string          // the AUTOFIX log lines
	StmtsNil bool              // MkLines.stmts == nil (unbalanced directives)
	Panicked string
}

func verifC15Setup(out io.Writer) {
	G = NewPkglint(out, io.Discard)
	G.Logger.Opts.Autofix = true
	G.Logger.Opts.ShowAutofix = false
	G.WarnExtra = true
	G.WarnPerm = true
	G.WarnQuoting = true
}

func verifC15Describe(mkline *MkLine) VerifLayoutLine {
	var l VerifLayoutLine
	for i := range mkline.raw {
		l.Raw = append(l.Raw, mkline.RawText(i))
	}
	l.HasComm = mkline.HasComment()
	l.Comment = mkline.Comment()
	switch {
	case mkline.IsEmpty():
		l.Kind = "empty"
	case mkline.IsVarassignMaybeCommented():
		l.Kind = "assign"
		l.Commented = mkline.IsCommentedVarassign()
		l.Varname = mkline.Varname()
		l.Op = mkline.Op().String()
		l.Value = mkline.Value()
		for i := range mkline.raw {
			p := NewVaralignSplitter().split(mkline.RawText(i), i == 0)
			l.Parts = append(l.Parts, [6]string{p.leadingComment, p.varnameOp, p.spaceBeforeValue, p.value, p.spaceAfterValue, p.continuation})
		}
	case mkline.IsComment():
		l.Kind = "comment"
	case mkline.IsDirective():
		l.Kind = "directive"
		l.Indent = mkline.Indent()
	case mkline.IsInclude():
		l.Kind = "include"
		l.Indent = mkline.Indent()
	case mkline.IsShellCommand():
		l.Kind = "shell"
	default:
		l.Kind = "other"
	}
	return l
}

func verifC15Collect(lines *Lines, out *bytes.Buffer, res *VerifLayoutResult) {
	for _, line := range lines.Lines {
		if fix := line.fix; fix != nil {
			for _, group := range [][]string{fix.above, fix.texts, fix.below} {
				for _, t := range group {
					res.Lines = append(res.Lines, strings.TrimSuffix(t, "\n"))
				}
			}
		} else {
			for _, raw := range line.raw {
				res.Lines = append(res.Lines, raw.Orig())
			}
		}
	}
	for _, l := range strings.Split(out.String(), "\n") {
		if strings.HasPrefix(l, "AUTOFIX: ") {
			res.Actions = append(res.Actions, l)
		}
	}
}

// VerifVaralign parses the given raw lines as a makefile fragment and runs
// the layout fixers selected by mode over it, in the order MkLines.checkAll
// uses for them:
//
//	"parse"     only the parser (its fixSpaceAfterVarname fix runs while parsing)
//	"align"     parser, then VaralignBlock.Process for every line and Finish at the end
//	"trim"      parser, then LineChecker.CheckTrailingWhitespace on every line
//	"trim+align" per line CheckTrailingWhitespace then Process; Finish at the end
//	"align+valuefix" per line Process, then a fix that changes the value (post-patch -> pre-configure); Finish at the end
//	"shell"     parser, then MkLineChecker.checkShellCommand on every shell line
//	"describe"  parser with autofix switched off (nothing is changed)
//
// Before describes the lines after parsing (i.e. after fixSpaceAfterVarname),
// except for "parse"/"describe" where nothing else runs anyway.
func VerifVaralign(rawLines []string, mode string) (res VerifLayoutResult) {
	var out bytes.Buffer
	res.Panicked = VerifPanic(func() {
		verifC15Setup(&out)
		if strings.HasPrefix(mode, "describe") {
			G.Logger.Opts.Autofix = false
		}
		// mode suffix "/nonl": the file does not end with a newline (the last raw
		// line is stored without "\n" in Autofix.texts)
		noFinalNewline := strings.HasSuffix(mode, "/nonl")
		mode = strings.TrimSuffix(mode, "/nonl")
		var sb strings.Builder
		for i, l := range rawLines {
			sb.WriteString(l)
			if !(noFinalNewline && i == len(rawLines)-1 && l != "") {
				sb.WriteString("\n")
			}
		}
		lines := convertToLogicalLines(NewCurrPath("verif.mk"), sb.String(), true)
		mklines := NewMkLines(lines, nil, nil)
		for _, mkline := range mklines.mklines {
			res.Before = append(res.Before, verifC15Describe(mkline))
		}
		var va VaralignBlock
		for _, mkline := range mklines.mklines {
			switch mode {
			case "align":
				va.Process(mkline)
			case "trim":
				LineChecker{mkline.Line}.CheckTrailingWhitespace()
			case "trim+align":
				LineChecker{mkline.Line}.CheckTrailingWhitespace()
				va.Process(mkline)
			case "align+valuefix":
				// MkLines.checkLine: varalign.Process(mkline) first, then the other checks of the line;
				// one of them (SubstContext: SUBST_STAGE post-patch -> pre-configure) changes the VALUE
				// of the line after VaralignBlock has split it.  Here: that replacement on every line
				// that contains the word, as a silent fix.
				va.Process(mkline)
				if strings.Contains(mkline.Line.Text, "post-patch") {
					fix := mkline.Line.Autofix()
					fix.Silent()
					fix.Replace("post-patch", "pre-configure")
					fix.Apply()
				}
			case "shell":
				if mkline.IsShellCommand() {
					MkLineChecker{mklines, mkline}.checkShellCommand()
				}
			}
		}
		if mode == "align" || mode == "trim+align" || mode == "align+valuefix" {
			va.Finish()
		}
		verifC15Collect(lines, &out, &res)
	})
	return
}

// VerifDirectiveIndent parses the lines and calls
// MkLineChecker.checkDirectiveIndentation(depths[i]) on every directive or
// include line i (logical line index); depths[i] < 0 = leave the line alone.
func VerifDirectiveIndent(rawLines []string, depths []int) (res VerifLayoutResult) {
	var out bytes.Buffer
	res.Panicked = VerifPanic(func() {
		verifC15Setup(&out)
		var sb strings.Builder
		for _, l := range rawLines {
			sb.WriteString(l)
			sb.WriteString("\n")
		}
		lines := convertToLogicalLines(NewCurrPath("verif.mk"), sb.String(), true)
		mklines := NewMkLines(lines, nil, nil)
		res.StmtsNil = mklines.stmts == nil
		for i, mkline := range mklines.mklines {
			res.Before = append(res.Before, verifC15Describe(mkline))
			if i < len(depths) && depths[i] >= 0 && (mkline.IsDirective() || mkline.IsInclude()) {
				MkLineChecker{mklines, mkline}.checkDirectiveIndentation(depths[i])
			}
		}
		verifC15Collect(lines, &out, &res)
	})
	return
}
