//go:build verif

package pkglint

// C13: mayMatchNumber is an unexported method of MkCondSimplifier that uses
// neither its receiver nor any global state (only the package-level
// `numeric = makepat.Number()`).

// VerifMayMatchNumber returns (result, err != nil, "panic:..." or "").
func VerifMayMatchNumber(pattern string) (may bool, isErr bool, panicked string) {
	panicked = VerifPanic(func() {
		var s *MkCondSimplifier
		m, err := s.mayMatchNumber(pattern)
		may, isErr = m, err != nil
	})
	return
}
